import AsynqModel.Proofs.P9InvStep
/-
  P9 (property C20), part 12: the stutter.  With KEEP_DEPENDENCIES a yield without futures after an earlier yield
  leaves the generator (its `_dependencies` still hold the earlier, computed, futures), and the very next iteration
  of `_execute` finds the task on top of the stack, unblocked, and re-enters the generator - no event is emitted.
  Without the option the generator just keeps running.
-/
namespace AsynqModel.Core.P9
open AsynqModel.Core

/-- what an observer sees of a state -/
structure Obs (a b : State) : Prop where
  trace : a.trace.map norm = b.trace.map norm
  stuck : a.stuck = b.stuck
  out : ∀ f, a.out f = b.out f
  done : a.isDone = b.isDone
  guard : a.guardFired = b.guardFired

theorem Obs.of_P {a b : State} (h : P a = P b) : Obs a b := by
  have e1 : (P a).stuck = (P b).stuck := congrArg State.stuck h
  have e2 : (P a).guardFired = (P b).guardFired := congrArg State.guardFired h
  have e3 : (P a).trace = (P b).trace := congrArg State.trace h
  refine ⟨e3, e1, fun f => ?_, ?_, e2⟩
  · have := congrArg (fun x => State.out x f) h
    simpa using this
  · have h1 := congrArg State.stuck h
    have h2 := congrArg State.ctl h
    have h3 := congrArg State.curTop h
    have h4 := congrArg State.tops h
    simp only [P_stuck, P_ctl, P_curTop, P_tops] at h1 h2 h3 h4
    simp [State.isDone, h1, h2, h3, h4]

theorem Obs.refl (a : State) : Obs a a := ⟨rfl, rfl, fun _ => rfl, rfl, rfl⟩
theorem Obs.symm {a b : State} (h : Obs a b) : Obs b a :=
  ⟨h.trace.symm, h.stuck.symm, fun f => (h.out f).symm, h.done.symm, h.guard.symm⟩
theorem Obs.trans {a b c : State} (h1 : Obs a b) (h2 : Obs b c) : Obs a c :=
  ⟨h1.trace.trans h2.trace, h1.stuck.trans h2.stuck, fun f => (h1.out f).trans (h2.out f), h1.done.trans h2.done,
   h1.guard.trans h2.guard⟩

theorem set_getD_self {α : Type} (l : List α) (i : Nat) (d : α) : l.set i (l.getD i d) = l := by
  induction l generalizing i with
  | nil => rfl
  | cons x xs ih =>
    cases i with
    | zero => rfl
    | succ i => simp only [List.getD_cons_succ, List.set_cons_succ, ih]

theorem updTask_id (s : State) (t : Nat) (g : TaskSt → TaskSt) (h : g (s.task t) = s.task t) : s.updTask t g = s := by
  have h' : g (s.fut t).ts = (s.fut t).ts := h
  show ({ s with futs := s.futs.set t { s.fut t with ts := g (s.fut t).ts } } : State) = s
  rw [h']
  show ({ s with futs := s.futs.set t (s.futs.getD t {}) } : State) = s
  rw [set_getD_self]

theorem resumeContexts_id (s : State) (t : Nat) (h : (s.task t).ctxActive = true) : s.resumeContexts t = s := by
  unfold State.resumeContexts
  simp [h]


/-- `leaveGen`'s update of the task state -/
def dsF (ts : TaskSt) : TaskSt := { ts with depsSched := false }

theorem leaveGen_eq (s : State) (t : Nat) (old : Option Nat) :
    s.leaveGen t old = { s.updTask t dsF with ctl := s.ctl.tail, active := old } := rfl

theorem length_updTask (s : State) (t : Nat) (g : TaskSt → TaskSt) : (s.updTask t g).futs.length = s.futs.length := by
  simp [State.updTask, State.setFut]

/-- the two extra steps of the run with KEEP_DEPENDENCIES -/
theorem stutter_core (s : State) (t : Nat) (old : Option Nat) (root base : Nat) (rest : List Ctl) (i : Nat)
    (d0 : List Nat) (ry : RY) (g g' : TaskSt → TaskSt)
    (hst : s.stuck = none) (hr : s.raising = none) (hctl : s.ctl = .gen t old :: .waitLoop root base :: rest)
    (hact : s.active = some t) (st' : List Nat) (hstack : s.stack = t :: st') (hlen1 : base < s.stack.length)
    (hlen2 : s.stack.length ≤ s.cfg.maxStack) (hkind : (s.fut t).kind = .task) (hcomp : s.computed t = false)
    (hnotin : inFrame rest t = false) (hd0 : d0 ≠ []) (hd0c : ∀ d ∈ d0, s.computed d = true)
    (hef : extractFutures ry = []) (hgd : ∀ ts, (g ts).deps = d0 ++ extractFutures ry)
    (hga : (g (s.task t)).ctxActive = true) (hg : ∀ ts, projT true (g ts) = g' (projT true ts)) :
    P (step (gYield s t old i (d0 ++ extractFutures ry) ry g)) = P (gYield (P s) t old i (extractFutures ry) ry g') ∧
    Obs (gYield s t old i (d0 ++ extractFutures ry) ry g) (gYield (P s) t old i (extractFutures ry) ry g') ∧
    (gYield s t old i (d0 ++ extractFutures ry) ry g).guardFired = s.guardFired ∧
    (step (gYield s t old i (d0 ++ extractFutures ry) ry g)).guardFired = s.guardFired := by
  have hl : t < s.futs.length := lt_of_task s t hkind
  have hfr : inFrame s.ctl t = true := inFrame_head hctl
  -- the two sides
  have ha : gYield s t old i (d0 ++ extractFutures ry) ry g =
      ((s.emit (.yield t i ry)).updTask t g).leaveGen t old := by
    unfold gYield
    have : (d0 ++ extractFutures ry).isEmpty = false := by
      cases d0 with
      | nil => exact absurd rfl hd0
      | cons x xs => rfl
    simp only [this, Bool.false_eq_true, if_false]
  have hb : gYield (P s) t old i (extractFutures ry) ry g' = ((P s).emit (.yield t i ry)).updTask t g' := by
    unfold gYield
    simp only [hef, List.isEmpty_nil, if_true]
  have e1 : P ((s.emit (.yield t i ry)).updTask t g) = ((P s).emit (.yield t i ry)).updTask t g' := by
    rw [P_updTask2 (s.emit (.yield t i ry)) t g g' true hfr hg, P_emit]; rfl
  rw [ha, hb, ← e1]
  generalize hs1 : (s.emit (.yield t i ry)).updTask t g = s1
  -- facts about `s1`
  have s1_ctl : s1.ctl = s.ctl := by rw [← hs1]; rfl
  have s1_active : s1.active = s.active := by rw [← hs1]; rfl
  have s1_len : t < s1.futs.length := by rw [← hs1, length_updTask]; exact hl
  have s1_task : s1.task t = g (s.task t) := by
    rw [← hs1]; exact task_updTask_self (s.emit (.yield t i ry)) t g hl
  have s1_comp : ∀ d, s1.computed d = s.computed d := fun d => by
    rw [← hs1]; exact computed_updTask (s.emit (.yield t i ry)) t d g
  have s1_kind : (s1.fut t).kind = .task := by
    rw [← hs1, kind_updTask]; exact hkind
  -- the state after leaving the generator
  generalize ha' : s1.leaveGen t old = a
  have a_def : a = { s1.updTask t dsF with ctl := s1.ctl.tail, active := old } := by
    rw [← ha']; rfl
  have a_stuck : a.stuck = none := by rw [← ha', ← hs1]; exact hst
  have a_raising : a.raising = none := by rw [← ha', ← hs1]; exact hr
  have a_ctl : a.ctl = .waitLoop root base :: rest := by
    rw [a_def]; show s1.ctl.tail = _; rw [s1_ctl, hctl]; rfl
  have a_stack : a.stack = t :: st' := by rw [← ha', ← hs1]; exact hstack
  have a_cfg : a.cfg = s.cfg := by rw [← ha', ← hs1]; rfl
  have a_active : a.active = old := by rw [a_def]
  have a_comp : ∀ d, a.computed d = s.computed d := fun d => by
    rw [a_def]
    show (s1.updTask t dsF).computed d = _
    rw [computed_updTask, s1_comp]
  have a_kind : (a.fut t).kind = .task := by
    rw [a_def]
    show ((s1.updTask t dsF).fut t).kind = _
    rw [kind_updTask]; exact s1_kind
  have a_task : a.task t = dsF (g (s.task t)) := by
    rw [a_def]
    show (s1.updTask t dsF).task t = _
    rw [task_updTask_self _ _ _ s1_len, s1_task]
  -- step 2: `_execute` re-enters the generator
  have hstep : step a = { a with ctl := .gen t old :: .waitLoop root base :: rest, active := some t } := by
    rw [step_waitLoop a root base rest a_stuck a_ctl]
    unfold wlCore
    have hab : decide (a.stack.length > base) = true := by
      rw [a_stack, ← hstack]; simpa using hlen1
    simp only [a_raising, Option.isSome_none, Bool.false_eq_true, if_false, hab, if_true]
    rw [executeIter_cons a t st' a_stack]
    unfold iterCore
    have hov : decide (a.stack.length > a.cfg.maxStack) = false := by
      rw [a_stack, ← hstack, a_cfg]; simpa using hlen2
    simp only [hov, Bool.false_eq_true, if_false, a_comp, hcomp, a_kind]
    rw [handleTask_eq]
    unfold handleCore
    have hbl : ((a.task t).deps.any fun d => !a.computed d) = false := by
      rw [List.any_eq_false]
      intro d hd
      rw [a_task] at hd
      have hd' : d ∈ (g (s.task t)).deps := hd
      rw [hgd, hef, List.append_nil] at hd'
      simp [a_comp, hd0c d hd']
    have hinf : inFrame a.ctl t = false := by rw [a_ctl]; simpa using hnotin
    simp only [hbl, hinf, Bool.false_eq_true, if_false]
    have hca : (a.task t).ctxActive = true := by rw [a_task]; exact hga
    rw [resumeContexts_id a t hca, a_active, a_ctl]
    simp only [a_raising]
  -- its projection is the projection of the state that stayed in the generator
  have hX : step a = s1.updTask t dsF := by
    rw [hstep, a_def]
    have h1 : s1.ctl = .gen t old :: .waitLoop root base :: rest := by rw [s1_ctl, hctl]
    have h2 : s1.active = some t := by rw [s1_active, hact]
    show ({ s1.updTask t dsF with
      ctl := .gen t old :: .waitLoop root base :: rest, active := some t } : State) = _
    rw [← h1, ← h2]
    rfl
  have hfr1 : inFrame s1.ctl t = true := by rw [s1_ctl]; exact hfr
  have hP : P (step a) = P s1 := by
    rw [hX, P_updTask1 s1 t dsF hfr1 (fun _ => rfl)]
    apply updTask_id
    rw [P_task, hfr1]
    simp [projT, dsF]
  refine ⟨hP.trans (P_idem s1).symm, ?_, ?_, ?_⟩
  · refine ⟨?_, ?_, fun f => ?_, ?_, ?_⟩
    · show a.trace.map norm = (s1.trace.map norm).map norm
      rw [a_def, List.map_map]
      apply List.map_congr_left
      intro e _
      exact (norm_idem e).symm
    · rw [a_def]; rfl
    · rw [a_def, P_out]
      show (s1.updTask t dsF).out f = _
      rw [out_updTask]
    · have h1 : a.ctl.isEmpty = false := by rw [a_ctl]; rfl
      have h2 : s1.ctl.isEmpty = false := by rw [s1_ctl, hctl]; rfl
      have h3 : s1.stuck = a.stuck := by rw [a_def]; rfl
      simp [State.isDone, h1, h2, h3]
    · rw [a_def]; rfl
  · rw [← ha', ← hs1]; rfl
  · rw [hX, ← hs1]; rfl


theorem stackOK_gen {M t old rest} {st : List Nat} (h : StackOK M (.gen t old :: rest) st) :
    st.head? = some t ∧ st.length ≤ M ∧ inFrame rest t = false ∧
      (∃ r b rest', rest = .waitLoop r b :: rest' ∧ b < st.length) := ⟨h.1, h.2.1, h.2.2.1, h.2.2.2.1⟩

/-- at a `Stutter` two steps of the run with KEEP_DEPENDENCIES match one step of its projection -/
theorem stutter_step (s : State) (hj : J s) (hst : s.stuck = none) (t : Nat) (old : Option Nat) (rest : List Ctl)
    (hctl : s.ctl = .gen t old :: rest) (hstu : Stutter s t) :
    P (step (step s)) = P (step (P s)) ∧ Obs (step s) (step (P s)) ∧
      (step s).guardFired = s.guardFired ∧ (step (step s)).guardFired = s.guardFired := by
  obtain ⟨hkd, hp, ry, hy, hef, hdne⟩ := hstu
  have hr : s.raising = none := hj.core.raising
  have hstk : StackOK s.cfg.maxStack (.gen t old :: rest) s.stack := by rw [← hctl]; exact hj.stk
  obtain ⟨htop, hlen2, hnotin, ⟨root, base, rest', hrest, hlen1⟩⟩ := stackOK_gen hstk
  subst hrest
  have hact : s.active = some t := by
    have := hj.core.active
    rw [hctl] at this
    exact (P3.activeChain_cons.1 (by simpa using this)).1
  obtain ⟨hkind, hdc, hca, hcd⟩ := hj.fr t (inFrame_head hctl)
  have hcomp : s.computed t = false := by
    cases hc : s.computed t with
    | false => rfl
    | true => exact absurd (hcd hc) hdne
  obtain ⟨st', hstack⟩ : ∃ st', s.stack = t :: st' := by
    cases hs : s.stack with
    | nil => rw [hs] at htop; cases htop
    | cons x xs =>
      rw [hs] at htop
      simp only [List.head?_cons, Option.some.injEq] at htop
      exact ⟨xs, by rw [htop]⟩
  have hfr : inFrame s.ctl t = true := inFrame_head hctl
  have hts : (P s).task t = projT true (s.task t) := by rw [P_task, hfr]
  have hp' : ((P s).task t).pending = false := by rw [hts]; exact hp
  have hrs : (projT true (s.task t)).resolve = (s.task t).resolve := by funext r; simp
  have hgb : genBad s t = false := by simp [genBad, hr]
  have hgb' : genBad (P s) t = false := by rw [P_genBad]; exact hgb
  rw [step_gen s t old _ hst hctl, step_gen (P s) t old _ hst hctl, hgb, hgb']
  unfold genCore
  simp only [Bool.false_eq_true, if_false]
  unfold yielded at hy
  cases hb : (s.task t).body with
  | yld y k h =>
    have hb' : ((P s).task t).body = .yld y k h := by rw [hts]; exact hb
    rw [hb] at hy
    simp only [Option.some.injEq] at hy
    rw [genStep_yld s t old y k h hp hb, genStep_yld (P s) t old y k h hp' hb', hts, hrs]
    simp only [hkd, if_true, P_keepDeps, Bool.false_eq_true, if_false, projT_resumes, hy]
    exact stutter_core s t old root base rest' _ _ ry _ _ hst hr hctl hact st' hstack hlen1 hlen2 hkind hcomp hnotin
      hdne hdc hef (fun _ => rfl) hca (fun ts => by simp [projT])
  | reyld k h =>
    have hb' : ((P s).task t).body = .reyld k h := by rw [hts]; exact hb
    rw [hb] at hy
    simp only [Option.some.injEq] at hy
    rw [genStep_reyld s t old k h hp hb, genStep_reyld (P s) t old k h hp' hb', hts]
    simp only [hkd, if_true, P_keepDeps, Bool.false_eq_true, if_false, projT_resumes, projT_prevY, hy]
    exact stutter_core s t old root base rest' _ _ ry _ _ hst hr hctl hact st' hstack hlen1 hlen2 hkind hcomp hnotin
      hdne hdc hef (fun _ => rfl) hca (fun ts => by simp [projT])
  | _ => rw [hb] at hy; cases hy

end AsynqModel.Core.P9
