import AsynqModel.Proofs.P7Ops
/-!
  P7: `__exit__` of one context, of all open with-blocks of a finishing task, and `__enter__` of a new context, when
  no NonAsyncContext exists, the contexts concerned belong to the running task `t` and `t`'s contexts are active.
-/
namespace AsynqModel.Core.P7
open AsynqModel.Core P5

theorem nf_exit (s : State) (c t : Nat) (x : CtxSt) (hx : s.ctxs[c]? = some x) (ho : x.owner = some t) (hna : NA s)
    (hact : (s.task t).ctxActive = true) : s.ctxExit c = ((eraseReg s c t).ctxPauseOne c).emit (.ctxX c) := by
  rw [ctxExit_some s c t x hx ho]
  have hk : (x.kind == CtxKind.nonasync) = false := by simpa using hna c x hx
  simp [hk, hact]

/-- the contexts `cs` (in this order) of task `t` have exited; `pre` are the ones still registered -/
structure Exit (s s' : State) (t : Nat) (cs pre : List Nat) : Prop where
  op : Op s s' t cs false
  tctxs : (s'.task t).ctxs = pre
  tact : (s'.task t).ctxActive = (s.task t).ctxActive
  tconts : (s'.task t).conts = (s.task t).conts
  comp : ∀ f, s'.computed f = s.computed f
  na : NA s'
  ctl : s'.ctl = s.ctl
  guard : s'.guardFired = s.guardFired
  m : ∀ R, M s (cs ++ R) → M s' R

theorem Exit.trans {s s1 s2 : State} {t : Nat} {cs1 cs2 pre1 pre2 : List Nat} (h1 : Exit s s1 t cs1 pre1)
    (h2 : Exit s1 s2 t cs2 pre2) : Exit s s2 t (cs1 ++ cs2) pre2 :=
  ⟨h1.op.trans h2.op, h2.tctxs, h2.tact.trans h1.tact, h2.tconts.trans h1.tconts,
    fun f => (h2.comp f).trans (h1.comp f), h2.na, h2.ctl.trans h1.ctl, h2.guard.trans h1.guard,
    fun R m => h2.m R (h1.m (cs2 ++ R) (by rw [← List.append_assoc]; exact m))⟩

theorem exit_one (s : State) (t c : Nat) (x : CtxSt) (pre : List Nat) (hx : s.ctxs[c]? = some x)
    (ho : x.owner = some t) (hna : NA s) (hact : (s.task t).ctxActive = true)
    (hctxs : (s.task t).ctxs = pre ++ [c]) (hnd : (s.task t).ctxs.Nodup) : Exit s (s.ctxExit c) t [c] pre := by
  rw [nf_exit s c t x hx ho hna hact]
  have hf := flagOp_pause (eraseReg s c t) c
  have hs := same_pauseOne (eraseReg s c t) c
  have o1 : Op s (eraseReg s c t) t [] false := op_updTask s t _ false
  have o2 : Op (eraseReg s c t) ((eraseReg s c t).ctxPauseOne c) t [c] false := op_flag hf hs t
  have o3 := op_emit ((eraseReg s c t).ctxPauseOne c) (.ctxX c) t false rfl
  have hcp : c ∉ pre := by
    rw [hctxs] at hnd
    intro hm
    have := (List.nodup_append.1 hnd).2.2 c hm c (by simp)
    exact this rfl
  refine ⟨by simpa using (o1.trans o2).trans o3, ?_, ?_, ?_, ?_, ?_, ?_, ?_, ?_⟩
  · rw [emit_task, hf.task, ctxs_eraseReg, if_pos rfl, hctxs, List.erase_append_right _ hcp]; simp
  · rw [emit_task, hf.task, act_eraseReg]
  · rw [emit_task, hf.task, conts_eraseReg]
  · intro f
    show ((eraseReg s c t).ctxPauseOne c).computed f = s.computed f
    rw [hf.computed]; exact computed_updTask s t f _
  · refine na_congr (s := s) (fun c' => ?_) hna
    show ((eraseReg s c t).ctxPauseOne c).ctxIsNonAsync c' = s.ctxIsNonAsync c'
    rw [isNonAsync_flag hf]; rfl
  · show ((eraseReg s c t).ctxPauseOne c).ctl = s.ctl
    rw [hs.ctl]; rfl
  · show ((eraseReg s c t).ctxPauseOne c).guardFired = s.guardFired
    rw [hs.guardFired]; rfl
  · intro R m
    have m0 : M (eraseReg s c t) (c :: R) := M_frame m (fun _ _ => rfl) (Nat.le_refl _) (fun _ => rfl) id rfl
    have m1 := M_pause m0
    exact M_frame m1 (fun _ _ => rfl) (Nat.le_refl _) (fun _ => rfl) id (lifo_cons_other _ _ rfl)

theorem exit_nil (s : State) (t : Nat) (hna : NA s) : Exit s s t [] (s.task t).ctxs :=
  ⟨op_nil_refl s t false, rfl, rfl, rfl, fun _ => rfl, hna, rfl, rfl, fun _ m => m⟩

theorem exit_fold (t : Nat) : ∀ (l : List (Nat × Body)) (s : State) (pre : List Nat), NA s →
    (s.task t).ctxActive = true → (s.task t).ctxs = pre ++ (l.map (·.1)).reverse → (s.task t).ctxs.Nodup →
    (∀ c ∈ l.map (·.1), ∃ x : CtxSt, s.ctxs[c]? = some x ∧ x.owner = some t) →
    Exit s (l.foldl (fun s p => s.ctxExit p.1) s) t (l.map (·.1)) pre := by
  intro l
  induction l with
  | nil =>
    intro s pre hna _ hctxs _ _
    have := exit_nil s t hna
    simp only [List.map_nil, List.reverse_nil, List.append_nil] at hctxs
    rw [hctxs] at this
    exact this
  | cons p l ih =>
    intro s pre hna hact hctxs hnd hown
    rw [List.foldl_cons]
    obtain ⟨x, hx, ho⟩ := hown p.1 (by simp)
    have hctxs' : (s.task t).ctxs = (pre ++ (l.map (·.1)).reverse) ++ [p.1] := by
      rw [hctxs]; simp
    have e1 := exit_one s t p.1 x _ hx ho hna hact hctxs' hnd
    have hnd1 : ((s.ctxExit p.1).task t).ctxs.Nodup := by
      rw [e1.tctxs]
      rw [hctxs'] at hnd
      exact (List.nodup_append.1 hnd).1
    have e2 := ih (s.ctxExit p.1) pre e1.na (by rw [e1.tact]; exact hact) e1.tctxs hnd1 (by
      intro c hc
      obtain ⟨y, hy, hyo⟩ := hown c (by simp at hc ⊢; exact .inr hc)
      obtain ⟨y', hy', _, ho'⟩ := e1.op.ko c y hy
      exact ⟨y', hy', ho'.trans hyo⟩)
    have := e1.trans e2
    simpa using this

/-- the effect of an instruction of the running task `t` on the contexts: the context objects `cs` get the flag `b`,
    the task's registered contexts become `ctxs'` and its open with-blocks `conts'` -/
structure GenOp (s r : State) (t : Nat) (cs : List Nat) (b : Bool) (ctxs' : List Nat) (conts' : List (Nat × Body)) :
    Prop where
  op : Op s r t cs b
  tctxs : (r.task t).ctxs = ctxs'
  tconts : (r.task t).conts = conts'
  tact : (r.task t).ctxActive = (s.task t).ctxActive
  na : NA r
  guard : r.guardFired = s.guardFired

theorem ext_leaveGen (s : State) (t : Nat) (old : Option Nat) : Ext s (s.leaveGen t old) := by
  unfold State.leaveGen
  exact Ext.trans (s' := s.updTask t fun ts => { ts with depsSched := false })
    (ext_updTask _ _ _ (fun _ => rfl) (fun _ => rfl) (fun _ => rfl) (fun _ => .inl rfl) (fun _ h => (by cases h)))
    (Ext.of_eq rfl rfl rfl rfl rfl)

theorem M_ext {s s' : State} {R : List Nat} (e : Ext s s') (m : M s R) : M s' R := by
  obtain ⟨evs, he, hs⟩ := e.trace
  refine M_frame m (fun c _ => by rw [e.ctxs]) (by rw [e.ctxs]; exact Nat.le_refl _)
    (fun v => by simp [State.svGet, e.sv]) (fun h => by rw [e.sv]; exact h) ?_
  rw [he, lifo_append_other _ _ (fun e hm => silent_not_ctx (hs e hm))]

theorem op_complete (s : State) (t : Nat) (o : Outcome) (b : Bool) : Op s (s.complete t o) t [] b := by
  refine Op.of_heap t b rfl (by simp [State.complete]) ?_ ?_ (fun f hf => computed_complete_ne s t f o hf) rfl
    ⟨[.done t o], rfl, by simp [nosv]⟩
  · intro u hu
    simp only [State.task, fut_complete]
    rw [if_neg (fun h => hu h.1)]
  · intro f
    rw [fut_complete]
    split
    · next h => rw [h.1]
    · rfl

theorem op_leaveGen (s : State) (t : Nat) (old : Option Nat) (b : Bool) : Op s (s.leaveGen t old) t [] b := by
  unfold State.leaveGen
  have o1 := op_updTask s t (fun ts => { ts with depsSched := false }) b
  have o2 : Op (s.updTask t fun ts => { ts with depsSched := false })
      { (s.updTask t fun ts => { ts with depsSched := false }) with ctl := s.ctl.tail, active := old } t [] b :=
    Op.of_futs t b rfl rfl rfl ⟨[], rfl, by simp⟩
  simpa using o1.trans o2

theorem finish_spec (s : State) (t : Nat) (old : Option Nat) (o : Outcome) (hna : NA s) (ht : t < s.futs.length)
    (hact : (s.task t).ctxActive = true) (hk1 : (s.task t).conts.map (·.1) = (s.task t).ctxs.reverse)
    (hnd : (s.task t).ctxs.Nodup)
    (hown : ∀ c ∈ (s.task t).ctxs, ∃ x : CtxSt, s.ctxs[c]? = some x ∧ x.owner = some t) :
    GenOp s ((((s.exitAll t).updTask t fun ts => { ts with pending := false }).complete t o).leaveGen t old) t
      (s.task t).ctxs false [] [] ∧
    ∀ R, M s ((s.task t).ctxs.reverse ++ R) →
      M ((((s.exitAll t).updTask t fun ts => { ts with pending := false }).complete t o).leaveGen t old) R := by
  have e1 := exit_fold t (s.task t).conts s [] hna hact (by rw [hk1]; simp) hnd
    (by intro c hc; rw [hk1] at hc; exact hown c (List.mem_reverse.1 hc))
  rw [hk1] at e1
  have hex : s.exitAll t = ((s.task t).conts.foldl (fun s p => s.ctxExit p.1) s).updTask t
      (fun ts => { ts with conts := [] }) := rfl
  rw [hex]
  generalize hs1 : (s.task t).conts.foldl (fun s p => s.ctxExit p.1) s = s1 at e1 ⊢
  have hlen1 : t < s1.futs.length := by rw [e1.op.len]; exact ht
  -- the four heap-only operations after the exits
  have o2 := op_updTask s1 t (fun ts => { ts with conts := [] }) false
  have o3 := op_updTask (s1.updTask t fun ts => { ts with conts := [] }) t (fun ts => { ts with pending := false }) false
  have o4 := op_complete ((s1.updTask t fun ts => { ts with conts := [] }).updTask t fun ts => { ts with pending := false })
    t o false
  have o5 := op_leaveGen ((((s1.updTask t fun ts => { ts with conts := [] }).updTask t
    fun ts => { ts with pending := false })).complete t o) t old false
  have x4 := ext_complete ((s1.updTask t fun ts => { ts with conts := [] }).updTask t fun ts => { ts with pending := false })
    t o
  have x5 := ext_leaveGen ((((s1.updTask t fun ts => { ts with conts := [] }).updTask t
    fun ts => { ts with pending := false })).complete t o) t old
  have ht2 : (s1.updTask t fun ts => { ts with conts := [] }).task t = { s1.task t with conts := [] } :=
    task_updTask_self _ _ _ hlen1
  have ht3 : ((s1.updTask t fun ts => { ts with conts := [] }).updTask t fun ts => { ts with pending := false }).task t
      = { s1.task t with conts := [], pending := false } := by
    rw [task_updTask_self _ _ _ (by simpa using hlen1), ht2]
  refine ⟨⟨?_, ?_, ?_, ?_, ?_, ?_⟩, ?_⟩
  · have := (((e1.op.trans o2).trans o3).trans o4).trans o5
    exact (by simpa using this : Op s _ t (s.task t).ctxs.reverse false).perm (fun c => List.mem_reverse)
  · rw [x5.tctxs, x4.tctxs, ht3]; exact e1.tctxs
  · rw [x5.tconts, x4.tconts, ht3]
  · rw [x5.tact, x4.tact, ht3]; exact e1.tact
  · exact na_of_ctxs (s := s1) (by rw [x5.ctxs, x4.ctxs]; rfl) e1.na
  · rw [← e1.guard]
    show (State.leaveGen _ t old).guardFired = s1.guardFired
    rfl
  · intro R m
    have m1 := e1.m R m
    have m3 : M ((s1.updTask t fun ts => { ts with conts := [] }).updTask t fun ts => { ts with pending := false }) R :=
      M_frame m1 (fun _ _ => rfl) (Nat.le_refl _) (fun _ => rfl) id rfl
    exact M_ext x5 (M_ext x4 m3)

/-- leaving the innermost with-block of the running task -/
theorem endwith_spec (s : State) (t cid : Nat) (k : Body) (cs : List (Nat × Body)) (hna : NA s)
    (ht : t < s.futs.length) (hact : (s.task t).ctxActive = true) (hconts : (s.task t).conts = (cid, k) :: cs)
    (hk1 : (s.task t).conts.map (·.1) = (s.task t).ctxs.reverse) (hnd : (s.task t).ctxs.Nodup)
    (x : CtxSt) (hx : s.ctxs[cid]? = some x) (ho : x.owner = some t) :
    GenOp s ((s.ctxExit cid).updTask t fun ts => { ts with conts := cs, body := k }) t [cid] false
      (cs.map (·.1)).reverse cs ∧
    (∀ f, ((s.ctxExit cid).updTask t fun ts => { ts with conts := cs, body := k }).computed f = s.computed f) ∧
    ∀ R, M s (cid :: R) → M ((s.ctxExit cid).updTask t fun ts => { ts with conts := cs, body := k }) R := by
  have hctxs : (s.task t).ctxs = (cs.map (·.1)).reverse ++ [cid] := by
    have := congrArg List.reverse hk1
    rw [List.reverse_reverse, hconts] at this
    rw [← this]; simp
  have e1 := exit_one s t cid x _ hx ho hna hact hctxs hnd
  have hlen1 : t < (s.ctxExit cid).futs.length := by rw [e1.op.len]; exact ht
  have o2 := op_updTask (s.ctxExit cid) t (fun ts => { ts with conts := cs, body := k }) false
  have ht2 : ((s.ctxExit cid).updTask t fun ts => { ts with conts := cs, body := k }).task t =
      { (s.ctxExit cid).task t with conts := cs, body := k } := task_updTask_self _ _ _ hlen1
  refine ⟨⟨by simpa using e1.op.trans o2, ?_, ?_, ?_, na_of_ctxs rfl e1.na, e1.guard⟩,
    fun f => by rw [computed_updTask]; exact e1.comp f, ?_⟩
  · rw [ht2]; exact e1.tctxs
  · rw [ht2]
  · rw [ht2]; exact e1.tact
  · intro R m
    exact M_frame (e1.m R m) (fun _ _ => rfl) (Nat.le_refl _) (fun _ => rfl) id rfl

/-! ### entering a with-block -/

theorem updTask_id (s : State) (t : Nat) : s.updTask t (fun ts => ts) = s := by
  unfold State.updTask State.setFut State.fut
  have : s.futs.set t (s.futs.getD t {}) = s.futs := by
    rcases Nat.lt_or_ge t s.futs.length with h | h
    · rw [List.getD_eq_getElem?_getD, List.getElem?_eq_getElem h]
      simp
    · exact List.set_eq_of_length_le h
  show { s with futs := s.futs.set t (s.futs.getD t {}) } = s
  rw [this]

/-- the state after `with c:` of the running task `t` (`s0` is `s` with the variable of an override touched) -/
def enterSt (s s0 : State) (t : Nat) (c : CtxKind) (b k : Body) : State :=
  (if c == .nonasync then newCtx s0 s.ctxs.length t c
   else (newCtx s0 s.ctxs.length t c).ctxResumeOne s.ctxs.length).updTask t
    fun ts => { ts with conts := (s.ctxs.length, k) :: ts.conts, body := b }

theorem enter_spec (s s0 : State) (t : Nat) (c : CtxKind) (b k : Body) (hna : NA s) (hc : c ≠ .nonasync)
    (ht : t < s.futs.length) (ha : s.active = some t) (h0 : s0 = s ∨ ∃ var, s0 = s.svTouch var) :
    GenOp s (enterSt s s0 t c b k) t [s.ctxs.length] true ((s.task t).ctxs ++ [s.ctxs.length])
      ((s.ctxs.length, k) :: (s.task t).conts) ∧
    (∀ x' : CtxSt, (enterSt s s0 t c b k).ctxs[s.ctxs.length]? = some x' → x'.owner = some t) ∧
    (∀ f, (enterSt s s0 t c b k).computed f = s.computed f) ∧
    ∀ R, M s R → M (enterSt s s0 t c b k) (s.ctxs.length :: R) := by
  -- facts about `s0`
  have h0f : s0.futs = s.futs := by rcases h0 with rfl | ⟨v, rfl⟩ <;> simp
  have h0c : s0.ctxs = s.ctxs := by rcases h0 with rfl | ⟨v, rfl⟩ <;> simp
  have h0t : s0.trace = s.trace := by rcases h0 with rfl | ⟨v, rfl⟩ <;> simp
  have h0a : s0.active = s.active := by rcases h0 with rfl | ⟨v, rfl⟩ <;> simp
  have h0st : s0.stack = s.stack := by rcases h0 with rfl | ⟨v, rfl⟩ <;> simp
  have h0g : s0.guardFired = s.guardFired := by rcases h0 with rfl | ⟨v, rfl⟩ <;> simp
  have h0sv : ∀ v, s0.svGet v = s.svGet v := by
    rcases h0 with rfl | ⟨v, rfl⟩
    · intro _; rfl
    · exact svGet_svTouch s v
  have h0svn : (s.sv.map (·.1)).Nodup → (s0.sv.map (·.1)).Nodup := by
    rcases h0 with rfl | ⟨v, rfl⟩
    · exact id
    · exact svn_svTouch s v
  have h0task : ∀ u, s0.task u = s.task u := fun u => by simp [State.task, State.fut, h0f]
  have h0fut : ∀ u, s0.fut u = s.fut u := fun u => by simp [State.fut, h0f]
  have hck : (c == CtxKind.nonasync) = false := by simpa using hc
  -- the new context object and the state after `enter_context`
  let new : CtxSt := { kind := c, owner := s0.active }
  let B : State := { (s0.emit (.ctxN s.ctxs.length t c)) with ctxs := s0.ctxs ++ [new] }
  have hN : newCtx s0 s.ctxs.length t c = B.updTask t fun ts => { ts with ctxs := ts.ctxs ++ [s.ctxs.length] } := by
    have hh : s0.active = some t := h0a.trans ha
    unfold newCtx
    simp only [emit_active]
    split
    · next a heq => rw [hh] at heq; cases heq; rfl
    · next heq => rw [hh] at heq; cases heq
  have hBtask : ∀ u, B.task u = s.task u := fun u => h0task u
  have hBlen : B.futs.length = s.futs.length := by show s0.futs.length = _; rw [h0f]
  have hNt : (newCtx s0 s.ctxs.length t c).task t = { s.task t with ctxs := (s.task t).ctxs ++ [s.ctxs.length] } := by
    rw [hN, task_updTask_self _ _ _ (by rw [hBlen]; exact ht), hBtask]
  have hNne : ∀ u, u ≠ t → (newCtx s0 s.ctxs.length t c).task u = s.task u := by
    intro u hu; rw [hN, task_updTask_ne _ _ _ _ hu, hBtask]
  have hNctxs : (newCtx s0 s.ctxs.length t c).ctxs = s.ctxs ++ [new] := by rw [hN]; show s0.ctxs ++ [new] = _; rw [h0c]
  have hNent : (newCtx s0 s.ctxs.length t c).ctxs[s.ctxs.length]? = some new := by rw [hNctxs]; simp
  have hNold : ∀ c', c' < s.ctxs.length → (newCtx s0 s.ctxs.length t c).ctxs[c']? = s.ctxs[c']? := by
    intro c' hc'; rw [hNctxs, List.getElem?_append_left hc']
  have hf := flagOp_resume (newCtx s0 s.ctxs.length t c) s.ctxs.length
  have hs := same_resumeOne (newCtx s0 s.ctxs.length t c) s.ctxs.length
  obtain ⟨xn, hxn, hxk, hxo, hxr⟩ := hf.eq new hNent
  -- unfold the final state
  have hr : enterSt s s0 t c b k = ((newCtx s0 s.ctxs.length t c).ctxResumeOne s.ctxs.length).updTask t
      fun ts => { ts with conts := (s.ctxs.length, k) :: ts.conts, body := b } := by
    unfold enterSt; rw [hck]; rfl
  rw [hr]
  have hXlen : ((newCtx s0 s.ctxs.length t c).ctxResumeOne s.ctxs.length).futs.length = s.futs.length := by
    rw [hf.futs, hN]; simpa using hBlen
  have hrt : (((newCtx s0 s.ctxs.length t c).ctxResumeOne s.ctxs.length).updTask t
      fun ts => { ts with conts := (s.ctxs.length, k) :: ts.conts, body := b }).task t =
      { s.task t with ctxs := (s.task t).ctxs ++ [s.ctxs.length], conts := (s.ctxs.length, k) :: (s.task t).conts,
                      body := b } := by
    rw [task_updTask_self _ _ _ (by rw [hXlen]; exact ht), hf.task, hNt]
  have hcomp : ∀ f, (((newCtx s0 s.ctxs.length t c).ctxResumeOne s.ctxs.length).updTask t
      fun ts => { ts with conts := (s.ctxs.length, k) :: ts.conts, body := b }).computed f = s.computed f := by
    intro f
    rw [computed_updTask, hf.computed, hN, computed_updTask]
    show s0.computed f = _
    simp [State.computed, State.out, h0fut]
  have hXlenc : ((newCtx s0 s.ctxs.length t c).ctxResumeOne s.ctxs.length).ctxs.length = s.ctxs.length + 1 := by
    rw [hf.len, hNctxs]; simp
  have hXold : ∀ c', c' < s.ctxs.length →
      ((newCtx s0 s.ctxs.length t c).ctxResumeOne s.ctxs.length).ctxs[c']? = s.ctxs[c']? := by
    intro c' hc'; rw [hf.ne c' (by omega), hNold c' hc']
  refine ⟨⟨⟨?_, ?_, ?_, ?_, fun f _ => hcomp f, ?_, ?_, ?_, ?_, ?_, ?_⟩, ?_, ?_, ?_, ?_, ?_⟩, ?_, hcomp, ?_⟩
  · show ((newCtx s0 s.ctxs.length t c).ctxResumeOne s.ctxs.length).stack = s.stack
    rw [hs.stack, hN]; exact h0st
  · rw [updTask_len]; exact hXlen
  · intro u hu; rw [task_updTask_ne _ _ _ _ hu, hf.task, hNne u hu]
  · intro f
    rw [kind_updTask]
    show (((newCtx s0 s.ctxs.length t c).ctxResumeOne s.ctxs.length).fut f).kind = _
    have : ((newCtx s0 s.ctxs.length t c).ctxResumeOne s.ctxs.length).fut f = (newCtx s0 s.ctxs.length t c).fut f := by
      simp [State.fut, hf.futs]
    rw [this, hN, kind_updTask]
    show (s0.fut f).kind = _
    rw [h0fut]
  · show s.ctxs.length ≤ ((newCtx s0 s.ctxs.length t c).ctxResumeOne s.ctxs.length).ctxs.length
    omega
  · intro c' hc' hlt
    exact hXold c' hlt
  · intro c' hc' x' hx'
    simp only [List.mem_singleton] at hc'
    subst hc'
    rw [updTask_ctxs, hxn] at hx'
    cases hx'; exact hxr
  · intro c' h1 h2
    rw [updTask_ctxs, hXlenc] at h2
    simp only [List.mem_singleton]; omega
  · intro c' x hx
    exact ⟨x, by rw [updTask_ctxs, hXold c' (lt_of_getElem?_some hx)]; exact hx, rfl, rfl⟩
  · refine ⟨[.ctx true s.ctxs.length, .ctxN s.ctxs.length t c], ?_, by simp [nosv]⟩
    rw [updTask_trace, hf.trace, hN]
    show _ :: _ :: s0.trace = _
    rw [h0t]; rfl
  · rw [hrt]
  · rw [hrt]
  · rw [hrt]
  · intro c' x' hx'
    rw [updTask_ctxs] at hx'
    by_cases hcn : c' = s.ctxs.length
    · subst hcn
      rw [hxn] at hx'; cases hx'
      rw [hxk]; exact hc
    · have hlt : c' < s.ctxs.length := by
        have := lt_of_getElem?_some hx'
        rw [hXlenc] at this; omega
      rw [hXold c' hlt] at hx'
      exact hna c' x' hx'
  · show ((newCtx s0 s.ctxs.length t c).ctxResumeOne s.ctxs.length).guardFired = s.guardFired
    rw [hs.guardFired, hN]; exact h0g
  · intro x' hx'
    rw [updTask_ctxs, hxn] at hx'
    cases hx'; exact hxo.trans (h0a.trans ha)
  · intro R m
    have hval : ∀ c' ∈ R, c' < s.ctxs.length := m.valid
    have mN : M (newCtx s0 s.ctxs.length t c) R := by
      refine M_frame m (fun c' hm => hNold c' (hval c' hm)) (by rw [hNctxs]; simp) ?_ ?_ ?_
      · intro v; rw [hN]; exact h0sv v
      · intro h; rw [hN]; exact h0svn h
      · rw [hN]
        show lifo (.ctxN s.ctxs.length t c :: s0.trace) = _
        rw [lifo_cons_other _ _ rfl, h0t]
    have mX := M_resume mN (fun hm => Nat.lt_irrefl _ (hval _ hm)) (by rw [hNctxs]; simp)
    exact M_frame mX (fun _ _ => rfl) (Nat.le_refl _) (fun _ => rfl) id rfl

end AsynqModel.Core.P7
