import AsynqModel.Proofs.P15Watch
import AsynqModel.Proofs.P2Unwrap
/-!
  P15, part 8 (start-order clause): facts about the observer's fields `mentions`, `orderObl`, `kinds` that do not
  involve the machine, and the list lemmas behind "written order = stack order".
-/
namespace AsynqModel.Core.P15
open AsynqModel.Core AsynqModel.Core.Spec AsynqModel.Core.P14

/-! ### `mentions` -/

theorem mention_mentions (w : Watch) (t : Nat) (fs : List Nat) :
    (w.mention t fs).mentions =
      (fs.filterMap fun f => if w.mentions.contains (f, t) then none else some (f, t)) ++ w.mentions := rfl

theorem mention_mono (w : Watch) (t : Nat) (fs : List Nat) (p : Nat × Nat) (h : p ∈ w.mentions) :
    p ∈ (w.mention t fs).mentions := by
  rw [mention_mentions]; exact List.mem_append_right _ h

theorem mention_mem (w : Watch) (t : Nat) (fs : List Nat) (f : Nat) (h : f ∈ fs) : (f, t) ∈ (w.mention t fs).mentions := by
  rw [mention_mentions]
  by_cases hc : w.mentions.contains (f, t) = true
  · exact List.mem_append_right _ (by simpa using hc)
  · apply List.mem_append_left
    rw [List.mem_filterMap]
    refine ⟨f, h, ?_⟩
    rw [if_neg hc]

theorem mention_new (w : Watch) (t : Nat) (fs : List Nat) (p : Nat × Nat) (h : p ∈ (w.mention t fs).mentions) :
    p ∈ w.mentions ∨ (p.2 = t ∧ p.1 ∈ fs) := by
  rw [mention_mentions] at h
  rcases List.mem_append.1 h with h | h
  · right
    rw [List.mem_filterMap] at h
    obtain ⟨f, hf, he⟩ := h
    split at he
    · cases he
    · injection he with he; subst he; exact ⟨rfl, hf⟩
  · exact Or.inl h

/-- the freshly yielded tasks whose start order the statement fixes -/
def freshOf (w : Watch) (y : RY) : List Nat :=
  (orderedLeaves y).eraseDups.filter fun f =>
    w.isTask f && !w.started f && !w.isDone f && !(dictLeaves y).contains f

theorem yield_mentions (w : Watch) (t i : Nat) (y : RY) :
    (watchEvent w (.yield t i y)).mentions =
      (y.leaves.filterMap fun f => if w.mentions.contains (f, t) then none else some (f, t)) ++ w.mentions := rfl

theorem yield_orderObl (w : Watch) (t i : Nat) (y : RY) :
    (watchEvent w (.yield t i y)).orderObl = (t, freshOf w y) :: w.orderObl := rfl

theorem yield_kinds (w : Watch) (t i : Nat) (y : RY) : (watchEvent w (.yield t i y)).kinds = w.kinds := rfl

theorem syncE_mentions (w : Watch) (t f : Nat) :
    (watchEvent w (.syncE t f)).mentions =
      ([f].filterMap fun f => if w.mentions.contains (f, t) then none else some (f, t)) ++ w.mentions := rfl

theorem syncE_orderObl (w : Watch) (t f : Nat) : (watchEvent w (.syncE t f)).orderObl = w.orderObl := rfl
theorem syncE_kinds (w : Watch) (t f : Nat) : (watchEvent w (.syncE t f)).kinds = w.kinds := rfl

/-- events that touch none of `kinds`, `mentions`, `orderObl` -/
def inertEv : Event → Bool
  | .new _ _ => false
  | .yield _ _ _ => false
  | .syncE _ _ => false
  | _ => true

theorem inert_mentions (w : Watch) (e : Event) (h : inertEv e = true) : (watchEvent w e).mentions = w.mentions := by
  cases e with
  | ctx r c => cases r <;> rfl
  | new f k => cases h
  | yield t i y => cases h
  | syncE t f => cases h
  | _ => rfl

theorem inert_orderObl (w : Watch) (e : Event) (h : inertEv e = true) : (watchEvent w e).orderObl = w.orderObl := by
  cases e with
  | ctx r c => cases r <;> rfl
  | new f k => cases h
  | yield t i y => cases h
  | syncE t f => cases h
  | _ => rfl

theorem inert_kinds (w : Watch) (e : Event) (h : inertEv e = true) : (watchEvent w e).kinds = w.kinds := by
  cases e with
  | ctx r c => cases r <;> rfl
  | new f k => cases h
  | yield t i y => cases h
  | syncE t f => cases h
  | _ => rfl

theorem new_mentions (w : Watch) (f : Nat) (k : NewKind) : (watchEvent w (.new f k)).mentions = w.mentions := by
  cases k <;> simp [watchEvent] <;> split <;> rfl

theorem new_orderObl (w : Watch) (f : Nat) (k : NewKind) : (watchEvent w (.new f k)).orderObl = w.orderObl := by
  cases k <;> simp [watchEvent] <;> split <;> rfl

theorem new_kinds (w : Watch) (f : Nat) (k : NewKind) : (watchEvent w (.new f k)).kinds = (f, k) :: w.kinds := by
  cases k <;> simp [watchEvent] <;> split <;> rfl

/-- `mentions` only grows -/
theorem mentions_mono (w : Watch) (e : Event) (p : Nat × Nat) (h : p ∈ w.mentions) : p ∈ (watchEvent w e).mentions := by
  cases e with
  | new f k => rw [new_mentions]; exact h
  | yield t i y => rw [yield_mentions]; exact List.mem_append_right _ h
  | syncE t f => rw [syncE_mentions]; exact List.mem_append_right _ h
  | ctx r c => cases r <;> exact h
  | _ => exact h

theorem mentions_mono_tr (pre tr : List Event) (p : Nat × Nat) (h : p ∈ (wOf tr).mentions) :
    p ∈ (wOf (pre ++ tr)).mentions := by
  induction pre with
  | nil => exact h
  | cons e pre ih => exact mentions_mono _ e p ih

/-- `orderObl` only grows (at the head) -/
theorem orderObl_mono (w : Watch) (e : Event) (p : Nat × List Nat) (h : p ∈ w.orderObl) :
    p ∈ (watchEvent w e).orderObl := by
  cases e with
  | new f k => rw [new_orderObl]; exact h
  | yield t i y => rw [yield_orderObl]; exact List.mem_cons_of_mem _ h
  | ctx r c => cases r <;> exact h
  | _ => exact h

/-! ### every obligation is a mention (D2) -/

theorem mem_orderedLeaves_leaves : ∀ (y : RY) (x : Nat), x ∈ orderedLeaves y → x ∈ y.leaves
  | .none, _, h => by simp [orderedLeaves] at h
  | .junk, _, h => by simp [orderedLeaves] at h
  | .f r, x, h => by simpa [orderedLeaves, YS.leaves] using h
  | .tup l, x, h => by
    simp only [orderedLeaves] at h; simp only [YS.leaves]; exact mem_orderedLeavesList_leaves l x h
  | .lst l, x, h => by
    simp only [orderedLeaves] at h; simp only [YS.leaves]; exact mem_orderedLeavesList_leaves l x h
  | .dict _ _, _, h => by simp [orderedLeaves] at h
where
  mem_orderedLeavesList_leaves : ∀ (l : List RY) (x : Nat), x ∈ orderedLeavesList l → x ∈ YS.leavesList l
    | [], _, h => by simp [orderedLeavesList] at h
    | y :: ys, x, h => by
      simp only [orderedLeavesList, List.mem_append] at h
      simp only [YS.leavesList, List.mem_append]
      rcases h with h | h
      · exact Or.inl (mem_orderedLeaves_leaves y x h)
      · exact Or.inr (mem_orderedLeavesList_leaves ys x h)

theorem mem_freshOf_leaves {w : Watch} {y : RY} {x : Nat} (h : x ∈ freshOf w y) : x ∈ y.leaves := by
  unfold freshOf at h
  exact mem_orderedLeaves_leaves y x (List.mem_eraseDups.1 (List.mem_filter.1 h).1)

theorem obl_mentions : ∀ (tr : List Event) (u : Nat) (l : List Nat), (u, l) ∈ (wOf tr).orderObl →
    ∀ t ∈ l, (t, u) ∈ (wOf tr).mentions
  | [], u, l, h, _, _ => by simp [wOf] at h
  | e :: tr, u, l, h, t, ht => by
    rw [wOf_cons] at h ⊢
    have ih := obl_mentions tr
    cases e with
    | yield v i y =>
      rw [yield_orderObl] at h
      rcases List.mem_cons.1 h with h | h
      · injection h with h1 h2
        subst h1; subst h2
        exact mention_mem _ _ _ _ (mem_freshOf_leaves ht)
      · exact mentions_mono _ _ _ (ih u l h t ht)
    | new f k => rw [new_orderObl] at h; exact mentions_mono _ _ _ (ih u l h t ht)
    | syncE v f => rw [syncE_orderObl] at h; exact mentions_mono _ _ _ (ih u l h t ht)
    | ctx r c =>
      have : (watchEvent (wOf tr) (.ctx r c)).orderObl = (wOf tr).orderObl := inert_orderObl _ _ rfl
      rw [this] at h; exact mentions_mono _ _ _ (ih u l h t ht)
    | _ => exact mentions_mono _ _ _ (ih u l h t ht)

/-! ### `elsewhere` -/

theorem length_eraseDups_of_two {l : List Nat} {a b : Nat} (ha : a ∈ l) (hb : b ∈ l) (hab : a ≠ b) :
    l.eraseDups.length > 1 := by
  have ha' : a ∈ l.eraseDups := List.mem_eraseDups.2 ha
  have hb' : b ∈ l.eraseDups := List.mem_eraseDups.2 hb
  match h : l.eraseDups with
  | [] => rw [h] at ha'; cases ha'
  | [x] =>
    rw [h] at ha' hb'
    simp only [List.mem_singleton] at ha' hb'
    exact absurd (ha'.trans hb'.symm) hab
  | _ :: _ :: _ => simp

theorem elsewhere_of_two {w : Watch} {t a b : Nat} (ha : (t, a) ∈ w.mentions) (hb : (t, b) ∈ w.mentions)
    (hab : a ≠ b) : elsewhere w t := by
  unfold elsewhere
  apply length_eraseDups_of_two (a := a) (b := b) _ _ hab
  · rw [List.mem_map]; exact ⟨(t, a), List.mem_filter.2 ⟨ha, by simp⟩, rfl⟩
  · rw [List.mem_map]; exact ⟨(t, b), List.mem_filter.2 ⟨hb, by simp⟩, rfl⟩

/-- a task awaited from one place only: every mention is by the same task -/
theorem single_unique {w : Watch} {t a b : Nat} (hs : ¬ elsewhere w t) (ha : (t, a) ∈ w.mentions)
    (hb : (t, b) ∈ w.mentions) : a = b := by
  cases Nat.decEq a b with
  | isTrue h => exact h
  | isFalse h => exact absurd (elsewhere_of_two ha hb h) hs

/-! ### written order and stack order -/

/-- `takeWhile (· ≠ t)` commutes with a filter that keeps `t` -/
theorem takeWhile_filter {q : Nat → Bool} {t : Nat} (hq : q t = true) :
    ∀ xs : List Nat, (xs.filter q).takeWhile (· != t) = (xs.takeWhile (· != t)).filter q
  | [] => rfl
  | x :: xs => by
    by_cases hx : x = t
    · subst hx; simp [hq]
    · have hb : (x != t) = true := by simp [hx]
      cases hqx : q x with
      | true => simp [List.filter_cons, hqx, List.takeWhile_cons, hb, takeWhile_filter hq xs]
      | false => simp [List.filter_cons, hqx, List.takeWhile_cons, hb, takeWhile_filter hq xs]

theorem mem_takeWhile_of_filter {q : Nat → Bool} {t a : Nat} (hq : q t = true) {xs : List Nat}
    (h : a ∈ (xs.filter q).takeWhile (· != t)) : a ∈ xs.takeWhile (· != t) := by
  rw [takeWhile_filter hq] at h; exact (List.mem_filter.1 h).1

theorem mem_takeWhile_filter {q : Nat → Bool} {t a : Nat} (hq : q t = true) (hqa : q a = true) {xs : List Nat}
    (h : a ∈ xs.takeWhile (· != t)) : a ∈ (xs.filter q).takeWhile (· != t) := by
  rw [takeWhile_filter hq]; exact List.mem_filter.2 ⟨h, hqa⟩

/-- `eraseDups` keeps first occurrences: what precedes `t` there precedes the first `t` in the list -/
theorem mem_takeWhile_eraseDups {t a : Nat} : ∀ (n : Nat) (xs : List Nat), xs.length ≤ n →
    a ∈ xs.eraseDups.takeWhile (· != t) → a ∈ xs.takeWhile (· != t)
  | _, [], _, h => by simp at h
  | 0, _ :: _, hn, _ => by simp at hn
  | n + 1, x :: xs, hn, h => by
    rw [List.eraseDups_cons] at h
    by_cases hx : x = t
    · subst hx; simp at h
    · have hb : (x != t) = true := by simp [hx]
      rw [List.takeWhile_cons, hb] at h ⊢
      simp only [if_true, List.mem_cons] at h ⊢
      rcases h with h | h
      · exact Or.inl h
      · right
        have hlen : (xs.filter fun b => !b == x).length ≤ n :=
          Nat.le_trans (List.length_filter_le _ _) (by simp at hn; omega)
        have := mem_takeWhile_eraseDups n _ hlen h
        exact mem_takeWhile_of_filter (q := fun b => !b == x) (by simp; exact fun e => hx e.symm) this

/-- prefix before an occurrence: if `l[p] = t` then everything before the first `t` is among the first `p` entries -/
theorem takeWhile_sub_take {t : Nat} : ∀ (l : List Nat) (p : Nat), l[p]? = some t →
    ∀ a ∈ l.takeWhile (· != t), a ∈ l.take p
  | [], p, h, _, _ => by simp at h
  | x :: xs, 0, h, a, ha => by
    simp at h; subst h; simp at ha
  | x :: xs, p + 1, h, a, ha => by
    by_cases hx : x = t
    · subst hx; simp at ha
    · have hb : (x != t) = true := by simp [hx]
      rw [List.takeWhile_cons, hb] at ha
      simp only [if_true, List.mem_cons] at ha
      rw [List.take_succ_cons, List.mem_cons]
      rcases ha with ha | ha
      · exact Or.inl ha
      · exact Or.inr (takeWhile_sub_take xs p (by simpa using h) a ha)

theorem mem_takeWhile_append_left {pr : Nat → Bool} {a : Nat} : ∀ (S R : List Nat), a ∈ S.takeWhile pr →
    a ∈ (S ++ R).takeWhile pr
  | [], _, h => by simp at h
  | x :: S, R, h => by
    rw [List.cons_append, List.takeWhile_cons] at *
    cases hx : pr x with
    | false => rw [hx] at h; simp at h
    | true =>
      rw [hx] at h
      simp only [if_true, List.mem_cons] at h ⊢
      rcases h with h | h
      · exact Or.inl h
      · exact Or.inr (mem_takeWhile_append_left S R h)

/-! ### stack order of a yielded structure -/

/-- `extract_futures` reversed lists the leaves outside dicts in written order (dict subtrees come reversed in between) -/
theorem stackOrder_filter (q : Nat → Bool) : ∀ (y : RY), (∀ x ∈ dictLeaves y, q x = false) →
    (extractFutures y).reverse.filter q = (orderedLeaves y).filter q
  | .none, _ => rfl
  | .junk, _ => rfl
  | .f r, _ => rfl
  | .tup l, h => by
    simp only [extractFutures, orderedLeaves]; exact stackOrderList_filter q l (by simpa [dictLeaves] using h)
  | .lst l, h => by
    simp only [extractFutures, orderedLeaves]; exact stackOrderList_filter q l (by simpa [dictLeaves] using h)
  | .dict ks vs, h => by
    simp only [extractFutures, orderedLeaves, List.filter_nil]
    rw [List.filter_eq_nil_iff]
    intro x hx
    have hx' : x ∈ YS.leavesList vs := (P2.mem_extractFwd vs x).1 (List.mem_reverse.1 hx)
    simp [h x (by simpa [dictLeaves] using hx')]
where
  stackOrderList_filter (q : Nat → Bool) : ∀ (l : List RY), (∀ x ∈ dictLeavesList l, q x = false) →
      (extractRev l).reverse.filter q = (orderedLeavesList l).filter q
    | [], _ => rfl
    | y :: ys, h => by
      simp only [extractRev, orderedLeavesList, List.reverse_append, List.filter_append]
      rw [stackOrder_filter q y (fun x hx => h x (by simp [dictLeavesList, hx])),
        stackOrderList_filter q ys (fun x hx => h x (by simp [dictLeavesList, hx]))]

/-- the combinatorial core of the start-order clause: `l` = the fresh tasks of the structure `y` (a filter of the
    de-duplicated leaves outside dicts, none of them below a dict), `a` precedes `t` in `l`; then in the list of
    uncomputed dependencies in stack order `a` occurs before the first `t` -/
theorem order_core {y : RY} {l : List Nat} {P unc : Nat → Bool} {t a : Nat}
    (hl : l = (orderedLeaves y).eraseDups.filter P) (hnd : ∀ x ∈ l, x ∉ dictLeaves y)
    (ht : t ∈ l) (ha : a ∈ l.takeWhile (· != t)) (hut : unc t = true) (hua : unc a = true) :
    a ∈ ((extractFutures y).reverse.filter unc).takeWhile (· != t) := by
  have hal : a ∈ l := (List.takeWhile_sublist _).subset ha
  have hPt : P t = true := by rw [hl] at ht; exact (List.mem_filter.1 ht).2
  rw [hl] at ha
  have h1 := mem_takeWhile_of_filter hPt ha
  have h2 := mem_takeWhile_eraseDups _ _ (Nat.le_refl _) h1
  let q : Nat → Bool := fun x => !(dictLeaves y).contains x
  have hqt : q t = true := by simpa [q] using hnd t ht
  have hqa : q a = true := by simpa [q] using hnd a hal
  have h3 := mem_takeWhile_filter hqt hqa h2
  rw [← stackOrder_filter q y (fun x hx => by simp [q, hx])] at h3
  have h4 := mem_takeWhile_of_filter hqt h3
  exact mem_takeWhile_filter hut hua h4

/-- ... hence `a` is above every occurrence of `t` once these dependencies are pushed -/
theorem order_push {y : RY} {l : List Nat} {P unc : Nat → Bool} {t a : Nat} {pre rest : List Nat} {p : Nat}
    (hl : l = (orderedLeaves y).eraseDups.filter P) (hnd : ∀ x ∈ l, x ∉ dictLeaves y)
    (ht : t ∈ l) (ha : a ∈ l.takeWhile (· != t)) (hut : unc t = true) (hua : unc a = true)
    (hp : (((pre ++ extractFutures y).filter unc).reverse ++ rest)[p]? = some t) :
    a ∈ (((pre ++ extractFutures y).filter unc).reverse ++ rest).take p := by
  have hc := order_core hl hnd ht ha hut hua
  have e : ((pre ++ extractFutures y).filter unc).reverse ++ rest =
      (extractFutures y).reverse.filter unc ++ ((pre.filter unc).reverse ++ rest) := by
    rw [List.filter_append, List.reverse_append, List.filter_reverse, List.append_assoc]
  rw [e] at hp ⊢
  exact takeWhile_sub_take _ p hp a (mem_takeWhile_append_left _ _ hc)

end AsynqModel.Core.P15
