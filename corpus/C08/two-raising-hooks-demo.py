"""Two raising context hooks in one task (second audit of the core, item 2): `with A(), B(): yield item`; resume() of A raises when
the task is continued, pause() of B raises while generator.close() (AsyncTask._computed) leaves the with-blocks of the task the
first error has just failed.  Expected: the task fails with the first error, value() raises it, the scheduler is clean.
Run with the tree to test first on the path:  PYTHONPATH=<dir containing asynq/> python two-raising-hooks-demo.py"""
import asynq
from asynq import batching, contexts

log = []


class Ctx(contexts.AsyncContext):
    def __init__(self, name, resume_raises_at=0, pause_raises_at=0):
        self.name, self.rr, self.pr, self.nr, self.np = name, resume_raises_at, pause_raises_at, 0, 0

    def resume(self):
        self.nr += 1
        log.append("R" + self.name)
        if self.nr == self.rr:
            raise RuntimeError("resume of %s" % self.name)

    def pause(self):
        self.np += 1
        log.append("P" + self.name)
        if self.np == self.pr:
            raise RuntimeError("pause of %s" % self.name)


class B(batching.BatchBase):
    def _try_switch_active_batch(self):
        pass

    def _flush(self):
        for it in self.items:
            it.set_value(1)


batch = B()


@asynq.asynq()
def body():
    with Ctx("a", resume_raises_at=2), Ctx("b", pause_raises_at=2):
        yield batching.BatchItemBase(batch)


asynq.scheduler.reset()
task = body.asynq()
try:
    task.value()
    raised = None
except RuntimeError as e:
    raised = e
sched = asynq.scheduler.get_scheduler()
ok = raised is task.error() and len(sched._tasks) == 0 and sched.active_task is None
print("hook calls %s; value() raised %r; task.error() is %r; tasks left on the scheduler's stack: %d: %s" % (
    " ".join(log), raised, task.error(), len(sched._tasks), "OK" if ok else "VIOLATED"))
