"""What the MAX_TASK_STACK_SIZE guard (asynq/scheduler.py, TaskScheduler._execute) leaves behind (second audit, item 1).
The guard calls TaskScheduler.reset() and raises RuntimeError: the tasks on the stack are abandoned as they are - their
contexts stay resumed (C06), their scoped-value overrides stay in force for whatever the thread computes next (C07), their
`_dependencies_scheduled` flags stay set (C20: KEEP_DEPENDENCIES then changes the pause/resume events of a caller that caught
the RuntimeError).  Run with the tree to test first on the path:  PYTHONPATH=<dir containing asynq/> python guard-reset-demo.py
Prints one line per part; each line ends with OK (property holds) or VIOLATED."""
import asynq
from asynq import batching, contexts, debug, scoped_value

log = []


class B(batching.BatchBase):
    def _try_switch_active_batch(self):
        if cur[0] is self:
            cur[0] = B()

    def _flush(self):
        for it in self.items:
            it.set_value(1)


class I(batching.BatchItemBase):
    def __init__(self):
        batching.BatchItemBase.__init__(self, cur[0])


cur = [None]
cur[0] = B()


class C(contexts.AsyncContext):
    def __init__(self, name):
        self.name = name

    def resume(self):
        log.append("R" + self.name)

    def pause(self):
        log.append("P" + self.name)


@asynq.asynq()
def leaf():
    return 1


# ---- C06: a context is left active when the computation ends with the guard's RuntimeError -----------------------------
@asynq.asynq()
def holder():
    with C("a"):
        yield leaf.asynq()


def part_c06():
    del log[:]
    asynq.scheduler.reset()
    debug.options.MAX_TASK_STACK_SIZE = 1
    try:
        holder()
        out = "no error"
    except RuntimeError as e:
        out = "RuntimeError"
    finally:
        debug.options.MAX_TASK_STACK_SIZE = 1000000
    active = log.count("Ra") - log.count("Pa")
    print("C06: %s; events %s; context a %s when value() returned: %s" % (
        out, " ".join(log), "ACTIVE" if active else "paused", "VIOLATED" if active else "OK"))


# ---- C07: an override survives the failed computation; the NEXT computation reads it -----------------------------------
sv = scoped_value.AsyncScopedValue("default")


@asynq.asynq()
def overrider():
    with sv.override("overridden"):
        yield leaf.asynq()


@asynq.asynq()
def reader():
    return sv.get()


def part_c07():
    asynq.scheduler.reset()
    debug.options.MAX_TASK_STACK_SIZE = 1
    try:
        overrider()
        out = "no error"
    except RuntimeError:
        out = "RuntimeError"
    finally:
        debug.options.MAX_TASK_STACK_SIZE = 1000000
    seen = reader()
    print("C07: %s; the next computation reads %r: %s" % (out, seen, "OK" if seen == "default" else "VIOLATED"))
    sv.set("default")


# ---- C20: KEEP_DEPENDENCIES changes the events a context sees after a guard reset in a nested call ---------------------
@asynq.asynq()
def wide():
    yield I(), I()


@asynq.asynq()
def caller():
    yield I()
    try:
        wide()                 # synchronous call: stack [outer, caller, wide, item, item] exceeds the limit 4
    except RuntimeError:
        pass
    yield None
    return 2


@asynq.asynq()
def outer():
    with C("b"):
        yield caller.asynq()
    return 9


def run_c20(keep):
    del log[:]
    asynq.scheduler.reset()
    debug.options.MAX_TASK_STACK_SIZE = 4
    debug.options.KEEP_DEPENDENCIES = keep
    try:
        v = outer()
    finally:
        debug.options.MAX_TASK_STACK_SIZE = 1000000
        debug.options.KEEP_DEPENDENCIES = False
    return v, list(log)


def part_c20():
    a = run_c20(False)
    b = run_c20(True)
    print("C20: default %s %s; KEEP_DEPENDENCIES %s %s: %s" % (a[0], " ".join(a[1]), b[0], " ".join(b[1]), "OK" if a == b else "VIOLATED"))


if __name__ == "__main__":
    import io
    import sys
    real = sys.stdout
    sys.stdout = io.StringIO()       # (the guard dumps the scheduler state to stdout)
    try:
        lines = []
        for part in (part_c06, part_c07, part_c20):
            buf = io.StringIO()
            sys.stdout = buf
            part()
            lines.append([l for l in buf.getvalue().split("\n") if l.startswith("C")][-1])
    finally:
        sys.stdout = real
    print("\n".join(lines))
