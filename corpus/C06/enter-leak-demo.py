"""A context whose resume() raises inside __enter__ stays registered with the task (asynq/contexts.py, AsyncContext.__enter__).
Run from a directory whose `asynq` is the tree to test:  python enter-leak-demo.py"""
import asynq
from asynq import batching, contexts

log = []


class B(batching.BatchBase):
    def _try_switch_active_batch(self):
        if cur[0] is self:
            cur[0] = B()

    def _flush(self):
        log.append("flush")
        for it in self.items:
            it.set_value(1)


class I(batching.BatchItemBase):
    def __init__(self):
        batching.BatchItemBase.__init__(self, cur[0])


cur = [None]
cur[0] = B()


class C(contexts.AsyncContext):
    def __init__(self, name, fail_first_resume=False):
        self.name, self.fail = name, fail_first_resume

    def resume(self):
        log.append("resume " + self.name)
        if self.fail:
            self.fail = False
            raise RuntimeError("cannot acquire")

    def pause(self):
        log.append("pause " + self.name)


@asynq.asynq()
def task():
    a, b = C("a", fail_first_resume=True), C("b")
    try:
        with a:                      # __enter__ raises: the block is NOT entered, __exit__ is never called
            log.append("never")
    except RuntimeError:
        log.append("enter of a failed")
    yield I()                        # suspension 1: pause a / resume a are called although no block of a is open
    with b:
        with a:                      # the retry works; a is the INNER block now ...
            yield I()                # ... but a is paused AFTER b and resumed BEFORE b (it kept its old place)
    return 1


task()
print("\n".join(log))
