#!/usr/bin/env python3
"""integrate a proof agent's files: integrate_proofs.py P3 C08 [C0x ...]  -> copies Proofs/<P>*.lean, Theorems/<Cxx>.lean, imports"""
import os, re, shutil, sys
name = sys.argv[1]; props = sys.argv[2:]
src = f'/tmp/proof-{name}/lean/AsynqModel'
copied = []
for f in sorted(os.listdir(f'{src}/Proofs')):
    if f.startswith(name) and f.endswith('.lean'):
        shutil.copy2(f'{src}/Proofs/{f}', f'/verif/lean/AsynqModel/Proofs/{f}'); copied.append('Proofs/' + f)
for p in props:
    shutil.copy2(f'{src}/Theorems/{p}.lean', f'/verif/lean/AsynqModel/Theorems/{p}.lean'); copied.append(f'Theorems/{p}.lean')
am = open('/verif/lean/AsynqModel.lean').read()
for l in open(f'/tmp/proof-{name}/lean/AsynqModel.lean').read().splitlines():
    if l.startswith('import') and l not in am:
        am += l + '\n'
open('/verif/lean/AsynqModel.lean', 'w').write(am)
print('copied', copied)
# theorem names
for p in props:
    t = open(f'/verif/lean/AsynqModel/Theorems/{p}.lean').read()
    ns = re.findall(r'^namespace\s+(\S+)', t, re.M)
    names = re.findall(r'^theorem\s+(\S+)', t, re.M)
    print(p, ns, names)
