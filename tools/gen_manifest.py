#!/usr/bin/env python3
"""(re)generate the MANIFEST.json entries of the core-machine checks from their check modules; keep the others"""
import importlib, json, os, sys
sys.path.insert(0, '/verif/harness')
CORE = {
 'C01': "the final outcome of every computation equals Seq.evalTop (plain sequential depth-first evaluation) and every value/exception a task receives at a yield is `unwrap` of what it yielded",
 'C02': "what a task receives at a yield is exactly `unwrap` (first failing leaf in structure order, TypeError for a non-future) of the completed futures it yielded, delivered only after all of them completed; uncaught failures are the task's outcome and the caller's exception",
 'C03': "resumed only when everything awaited is computed, exactly once per yield, never after completion, never-awaited tasks never start, written start order in lists/tuples, every awaited task computed when value() returns; chains 50 000 tasks deep",
 'C04': "at every scheduler flush of a yield-only program the root is Settled (every uncompleted task started and waits, directly or through tasks, on an unflushed item), and single-kind tree programs flush exactly Seq.roundsTop (longest dependent chain) times",
 'C05': "each batch's flush body runs once, never for an empty/flushed batch, never after the awaited computation is complete, the flushed batch has maximal priority among the scheduled ones (yield-only programs), every item is completed exactly once by its flush with what the flush set, before/after events paired also when the flush raises",
 'C06': "resume/pause of every context strictly alternate (resume first, pause last before exit), a running task's contexts are active, contexts of tasks not awaiting the running task are paused, all contexts paused at an outermost flush, NonAsyncContext fails the task iff it is suspended inside it",
 'C07': "the global resume/pause word is well-bracketed (LIFO), every scoped read equals the innermost enclosing override along the awaiting chain (what sequential code reads), every overridden value is restored when the computation ends",
 'C08': "get_active_task() inside a task is that task (also after nested synchronous calls), and after any outcome the scheduler keeps no task, no active task and no pending batch; sequences of computations on one thread",
 'C20': "the trace (values, exceptions, batches and their items, context events) under any subset of the boolean debug options and any scripted clock equals the trace under the default options, in the pure-Python and the Cython-compiled build",
}
GAPS = {
 'C01': "C01_agree / C01_taskOK / C01_result hold for every reachable state of WELL-SCOPED programs (decidable wsTop: every Ref names an existing future; C01_agree_needs_scoping is a machine-checked counterexample for ill-scoped ones - the model resolves a dangling ref to future 0), with guardFired = false and no NonAsyncContext (its failure is schedule-dependent by design); they cover every calling convention of the language (top-level call and .value(), synchronous calls inside tasks, yield, result()/return), every flush order (arbitrary oracle) and every priority configuration; 'for both the pure-Python and the compiled build' is the correspondence run on both builds (thorough tier)",
 'C02': "the delivery clauses are C02_delivery/C02_uncaught/C02_first_error (Theorems/C01.lean) and C02_received_trace; (tasks not depending on a failed future are unaffected: proved as C02_unaffected / C02_unaffected_transitive / C02_error_chain)",
 'C03': "TERMINATION is proved for yield-only, well-scoped, NonAsync-free programs under every flush oracle while the guard does not fire (C03_terminates_yieldonly: a 5-component lexicographic measure decreases at every step; at the end every started task is computed), on top of the proved acyclicity of the await graph (acyclic_refs, no_reentrancy, no_revisit_between_visits); start order is proved at the level of the scheduler stack (C03_order_stack: the futures of a list/tuple yield sit on the stack in written order, first on top), its trace-level consequence and termination of programs with synchronous re-entry rest on the correspondence (watchdog; chains 50 000 tasks deep run on the real code beyond the interpreter's recursion limit)",
 'C04': "C04_settled_at_flush is proved for trees AND DAGs of yield-only, well-scoped programs without NonAsyncContext while the MAX_TASK_STACK_SIZE guard has not fired (acyclicity of the await graph is proved from scoping by a post-order on creation paths); clause resting on the correspondence only: 'a single-kind computation performs exactly as many flushes as its longest chain of dependent requests' (Seq.roundsTop compared with the flush count of the real scheduler on trees, chains and staggered families); the link between the state-level Settled and the trace observer Spec.Watch.settled is by construction of the observer, not a theorem",
 'C05': "every clause of the statement has a theorem (what the awaiting task receives is C02_received_trace)",
 'C06': "clauses resting on the correspondence only (no theorem yet): 'paused whenever a task it is not awaiting runs / whenever a batch is flushed while suspended' (the awaiting-chain characterisation of which contexts are active); proved: flag invariants, strict alternation per context, exit implies paused, NonAsyncContext failure on suspension",
 'C07': "proved for every reachable state of well-scoped programs (guardFired = false, no NonAsyncContext): the global resume/pause word is well-bracketed (C07_lifo), every scoped value equals the innermost resumed override (C07_values), everything is restored between computations also after an error (C07_restored_at_top, C07_svals_zero, C07_all_paused_at_top), per-task save/restore; via the proved acyclicity of the await graph (C07_noRevisit); 'a read equals what the same code would read sequentially' (which override is innermost along the awaiting chain) rests on the correspondence (observer clause scoped-read)",
 'C08': "clause resting on the correspondence only: 'the next computation behaves as on a fresh scheduler' (checked by sequences of computations); C08_active/C08_frames carry guardFired = false (a machine-checked counterexample shows the hypothesis is necessary: known finding)",
 'C20': "of asynq's options only KEEP_DEPENDENCIES and MAX_TASK_STACK_SIZE exist in the machine: C20_keepdeps_inert/_conv/_complete prove a stuttering simulation (the option run takes silent extra steps) with equal normalised traces and outcomes, C20_maxstack_inert proves the limit is irrelevant until it fires, C20_guard_counterexample shows that after a guard reset KEEP_DEPENDENCIES does change context events (exotic: runaway recursion only; not reachable with the default limit); that every DUMP_* flag, COLLECT_PERF_STATS and ENABLE_COMPLEX_ASSERTIONS is a no-op rests on the differential runs (random option subsets, scripted clock up to hours per step, pure-Python and freshly compiled build)",
}
man = json.load(open('/verif/MANIFEST.json'))
checks = {c['property_id']: c for c in man['checks']}
for pid, what in CORE.items():
    m = importlib.import_module('checks.' + pid.lower())
    if not m.THEOREMS:
        checks.pop(pid, None)
        continue
    thms = ', '.join(t.split('.')[-1] for t in m.THEOREMS)
    checks[pid] = {
     "property_id": pid, "quick_cmd": f"bin/check {pid} --tier quick", "thorough_cmd": f"bin/check {pid} --tier thorough",
     "evidence_file": f"evidence/{pid}.json", "replay_cmd_template": f"bin/check {pid} --replay {{path}}",
     "engine": "lean-model+correspondence",
     "level_claimed": {"category": "proof",
       "text": f"Lean 4 theorems about the small-step machine AsynqModel.Core.Machine (scheduler.py/async_task.py/batching.py/contexts.py as one transition function) for every reachable state = every program, configuration and flush order ({thms}); the machine is tied to the code on every run by interpreting thousands of generated task programs on the real scheduler and replaying them in the machine with the implementation's flush choices (event-by-event trace diff), and the property's observer (AsynqModel.Core.Spec: {what}) is evaluated on the implementation's trace alone",
       "design_ref": f"DESIGN.md section 5 {pid} and section 10"},
     "level_note": "trusted: Lean kernel, propext/Classical.choice/Quot.sound, the hand-written machine (validated by the differential run), harness/corerun.py, CPython generator/with semantics, qcore; " + (GAPS.get(pid) or "clauses of the observer without a theorem rest on the correspondence only (DESIGN.md section 10)"),
     "technique": "Lean 4 invariants over all reachable machine states + model/implementation trace correspondence"}
man['checks'] = sorted(checks.values(), key=lambda c: c['property_id'])
claimed = {c['property_id'] for c in man['checks']}
man['not_applicable'] = [{"property_id": "C%02d" % i, "reason": "check being built (Lean model + correspondence); not claimed until its theorems are in"} for i in range(1, 21) if "C%02d" % i not in claimed]
man['engines'][0]['serves_properties'] = sorted(claimed)
man['notes'] = "all checks share bin/check -> harness/main.py (proof gate, scratch builds of /repo, workers, compiled Lean driver, verdicts); see DESIGN.md"
json.dump(man, open('/verif/MANIFEST.json', 'w'), indent=1)
print(sorted(claimed))
