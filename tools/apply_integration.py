#!/usr/bin/env python3
"""apply the texts of a builder agent's INTEGRATION.md: apply_integration.py C10 [/tmp/build-C10]
 - the ```json object with "property_id" == PID replaces the MANIFEST.json entry
 - the block after a heading that mentions 'DESIGN.md section 5' (up to the next '## ' heading) replaces DESIGN.md's '### PID ...' entry"""
import json, re, sys
pid = sys.argv[1]; src = sys.argv[2] if len(sys.argv) > 2 else f'/tmp/build-{pid}'
txt = open(f'{src}/INTEGRATION.md').read()
entry = None
for m in re.finditer(r'```json\s*(\{.*?\})\s*```', txt, re.S):
    try:
        e = json.loads(m.group(1))
    except Exception as ex:
        print('json block unparsable:', ex); continue
    if e.get('property_id') == pid:
        entry = e
if entry:
    man = json.load(open('/verif/MANIFEST.json'))
    old = [c for c in man['checks'] if c['property_id'] == pid][0]
    for k in ('quick_cmd', 'thorough_cmd', 'evidence_file', 'replay_cmd_template', 'engine'):
        entry.setdefault(k, old[k]); entry[k] = old[k]
    man['checks'] = sorted([c for c in man['checks'] if c['property_id'] != pid] + [entry], key=lambda c: c['property_id'])
    json.dump(man, open('/verif/MANIFEST.json', 'w'), indent=1); print('manifest entry replaced')
else:
    print('NO manifest json entry found')
m = re.search(r'^#+ [^\n]*DESIGN[^\n]*\n(.*?)(?=^## |\Z)', txt, re.S | re.M)
if m:
    body = m.group(1).strip('\n')
    m2 = re.search(r'```[a-z]*\n(.*?)\n```', body, re.S)
    if m2:
        body = m2.group(1)
    d = open('/verif/DESIGN.md').read()
    mm = re.search(r'^### %s [^\n]*\n.*?(?=^### C\d\d |^## )' % pid, d, re.S | re.M)
    head = re.match(r'^### %s [^\n]*\n' % pid, mm.group(0)).group(0)
    if body.lstrip().startswith('### ' + pid):
        body = body.lstrip().split('\n', 1)[1]
    d = d[:mm.start()] + head + body.strip('\n') + '\n\n' + d[mm.end():]
    open('/verif/DESIGN.md', 'w').write(d); print('DESIGN section 5 entry replaced (%d lines)' % body.count('\n'))
else:
    print('NO DESIGN section text found')
