#!/bin/bash
# false-alarm sweep on the unchanged tree: every registered check with several seeds
# usage: tools/sweep.sh "C01 C02 ..." "1 2 3" [tier]
cd "$(dirname "$0")/.."
(cd lean && lake build >/dev/null 2>&1)
for p in $1; do for s in $2; do
  out=$(VERIF_SEED=$s bin/check $p --tier ${3:-quick} 2>&1); rc=$?
  echo "$p seed=$s rc=$rc $(echo "$out" | tail -1)"
  [ $rc -ne 0 ] && echo "$out" | grep -E "VIOLATION|KNOWN|BROKEN" | head -3
done; done
exit 0
