import sys, threading
import asynq
from asynq import asynq as A, none_future
sys.setswitchinterval(1e-6)
@A()
def f():
    yield none_future
    return repr(none_future)
N=100000
res=[0]*4
def run(i):
    c=0
    for _ in range(N):
        if f()=="<recursion>": c+=1
    res[i]=c
ts=[threading.Thread(target=run,args=(i,)) for i in range(4)]
[t.start() for t in ts]; [t.join() for t in ts]
print(asynq.__file__, "recursion per thread of", N, res)
run(0); print("alone:", res[0])
