import sys, re, glob, importlib, os
sys.path.insert(0,os.path.join(os.path.dirname(os.path.dirname(os.path.abspath(__file__))), 'harness'))
src = {}
for f in glob.glob(os.path.join(os.path.dirname(os.path.dirname(os.path.abspath(__file__))), 'lean/AsynqModel/Theorems/*.lean')):
    src[f] = open(f).read()
def stmt(name):
    for f, s in src.items():
        m = re.search(r'^theorem %s[ \n]' % re.escape(name), s, re.M)
        if m:
            rest = s[m.start():]
            # statement up to ':=' at depth 0 (approx: first ' :=' or ':= by')
            i = rest.find(':=')
            return f.split('/')[-1], rest[:i]
    return None, ''
for pid in sys.argv[1:]:
    m = importlib.import_module('checks.' + pid.lower())
    print('==', pid)
    for t in m.THEOREMS:
        n = t.split('.')[-1]
        if t.startswith('AsynqModel.Contexts'): continue
        f, st = stmt(n)
        tags = []
        if re.search(r'stuck = none', st): tags.append('stuck=none')
        if re.search(r'guardFired = false', st): tags.append('guard')
        if re.search(r'noNonAsync|bodyHasNonAsync|ReachWN|ReachYO|ReachWS\b|na_', st): tags.append('noNA')
        if re.search(r'WSReach|WellScoped|ReachW\b|ReachW |wsBody|ReachWN|ReachYO|ReachWS|ProgOK', st): tags.append('ws')
        if re.search(r'_h\w+ :', st): tags.append('UNUSED:' + ','.join(re.findall(r'\((_h\w+)', st)))
        print('  %-40s %-16s %s' % (n, f, ' '.join(tags)))
