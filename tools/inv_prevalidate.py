#!/usr/bin/env python3
"""model-only pre-validation of the candidate invariants (AsynqModel.Core.Inv) on generated programs"""
import random, subprocess, sys, json, collections
sys.path.insert(0, '/verif/harness')
import coregen
from corerun import sx
from checks.corecommon import cfg_sx
n = int(sys.argv[1]); seed = int(sys.argv[2]) if len(sys.argv) > 2 else 0
rng = random.Random(seed)
cases = []; lines = []
for i in range(n):
    c = coregen.gen_case(rng, rng.choice(list(coregen.PROFILES)), ntops=rng.choice([1, 1, 2, 3]))
    if rng.random() < 0.15: c["cfg"]["maxStack"] = rng.choice([1, 2, 3, 5, 8])
    if rng.random() < 0.15: c["cfg"]["keepDeps"] = True
    cases.append(c)
    lines += ["(case coreinv %d X %s %s)" % (i, sx(cfg_sx(c["cfg"])), sx(["tops"] + [[a, b] for a, b in c["tops"]])), "(end)"]
p = subprocess.run(['/verif/lean/.lake/build/bin/driver'], input="\n".join(lines) + "\n", capture_output=True, text=True)
cnt = collections.Counter()
for l in p.stdout.splitlines():
    v = l.split()
    cnt[v[4]] += 1
    if v[4] != "SPECM=ok" and cnt[v[4]] <= 2:
        print(l[:300]); print(json.dumps(cases[int(v[1])])[:1200])
print(dict(cnt), p.stderr[:300])
