#!/usr/bin/env python3
"""run family `ctxwith` against the library WITH proposed-fixes/C08-close-raise.diff applied (third audit of the core, item 2).

`C06w_repaired_never_escapes` holds by construction of the with-block model; whether the proposed repair cures the REAL code is
a matter of running it.  This script
  1. clones the tracked files of the library (ASYNQ_REPO, default /repo) into a temporary directory (a .py-only tree: no stale
     compiled .so files),
  2. applies proposed-fixes/C08-close-raise.diff there (`git apply`),
  3. generates the `ctxwith` cases of the quick-tier plan (ctxhist.with_cases: the fixed histories of both routes into the open
     C08 finding + random histories, a quarter of them with a body that ignores GeneratorExit) for some seeds, runs each against
     the patched library (ctxhist.run in a child interpreter whose sys.path starts with the clone), and has the compiled Lean
     driver replay it in the model variant `closeSwallows := true` (header field `(afterfix 1)`, Drv/Contexts.lean handleW);
  4. prints a summary and removes the clone.
Expected after the fix: CORR=ok everywhere (the model with closeSwallows describes the patched code exactly), no SPEC failure
`hook-error-escapes-scheduler@...` and no `nothing-else-escapes`; the OTHER open C08 finding (a task failed while suspended
leaves its batch scheduled, `scheduler-retains-pending-batch`) is not touched by this repair and stays.
For comparison the same cases are run against an UNPATCHED clone with the model as the code is (`--both`, default).

usage: tools/ctxwith_afterfix.py [--seeds 0,1,2,3] [--tier quick|thorough] [--patched-only]
exit status 0 = expectation met, 1 = not met."""
import collections
import json
import os
import random
import shutil
import subprocess
import sys
import tempfile

HERE = os.path.dirname(os.path.dirname(os.path.abspath(__file__)))
REPO = os.environ.get("ASYNQ_REPO", "/repo")
DIFF = os.path.join(HERE, "proposed-fixes", "C08-close-raise.diff")
DRIVER = os.path.join(HERE, "lean", ".lake", "build", "bin", "driver")


def child(src, afterfix, seeds, tier):
    """(in the child interpreter) run the cases against the library in `src`, print the lines for the Lean driver"""
    sys.path.insert(0, os.path.join(HERE, "harness"))
    sys.path.insert(0, src)
    from checks import ctxhist
    import asynq
    assert os.path.dirname(os.path.dirname(os.path.abspath(asynq.__file__))) == os.path.abspath(src), asynq.__file__
    assert not asynq.async_task.__file__.endswith(".so")
    n = 0
    for seed in seeds:
        rng = random.Random("ctxwith-afterfix-%d" % seed)
        for c in ctxhist.with_cases(tier, rng):
            c = dict(c, id=n, afterfix=afterfix)
            r = ctxhist.run(c)
            print("#CASE %d %s" % (n, json.dumps({"gxs": c.get("gxs", 0), "origin": c["origin"], "seed": seed,
                                                    "case": {k: c[k] for k in ("special", "ctxs", "blocks", "ops", "gxs")}})))
            print("\n".join(r["lines"]))
            n += 1


def clone(patched):
    d = tempfile.mkdtemp(prefix="ctxwith-afterfix-")
    files = subprocess.run(["git", "-C", REPO, "ls-files", "-z"], check=True, capture_output=True).stdout
    subprocess.run(["rsync", "-a", "--from0", "--files-from=-", REPO + "/", d + "/"], input=files, check=True)
    subprocess.run(["git", "init", "-q"], cwd=d, check=True)
    if patched:
        subprocess.run(["git", "apply", "--check", DIFF], cwd=d, check=True)
        subprocess.run(["git", "apply", DIFF], cwd=d, check=True)
    return d


def run_tree(patched, seeds, tier):
    d = clone(patched)
    try:
        env = dict(os.environ, PYTHONDONTWRITEBYTECODE="1")
        env.pop("PYTHONPATH", None)
        out = subprocess.run([sys.executable, "-B", os.path.abspath(__file__), "--child", d, "1" if patched else "0",
                              ",".join(map(str, seeds)), tier], capture_output=True, text=True, env=env)
        if out.returncode != 0:
            sys.stderr.write(out.stderr)
            raise SystemExit("child interpreter failed")
    finally:
        shutil.rmtree(d, ignore_errors=True)
    meta, lines = {}, []
    for ln in out.stdout.splitlines():
        if ln.startswith("#CASE "):
            _, i, js = ln.split(" ", 2)
            meta[int(i)] = json.loads(js)
        else:
            lines.append(ln)
    res = subprocess.run([DRIVER], input="\n".join(lines) + "\n", capture_output=True, text=True).stdout.splitlines()
    res = [r for r in res if r.startswith("R ")]
    assert len(res) == len(meta), (len(res), len(meta))
    tally = collections.Counter()
    bad = []
    for r in res:
        f = r.split()
        i, corr, spec, specm = int(f[1]), f[2], f[3].split("=", 1)[1], f[4].split("=", 1)[1]
        tally[(meta[i]["gxs"], corr, spec)] += 1
        if corr != "CORR=ok" or spec != specm:
            bad.append((r, meta[i]))
    return meta, tally, bad


def show(title, meta, tally, bad):
    print("%s: %d cases (%d with a body that ignores GeneratorExit)" % (title, len(meta), sum(1 for m in meta.values() if m["gxs"])))
    for (gxs, corr, spec), n in sorted(tally.items()):
        print("   %5d  gxs=%d %s SPEC=%s" % (n, gxs, corr, spec))
    for r, m in bad[:5]:
        print("   MODEL/IMPLEMENTATION DISAGREE: %s\n      %s" % (r, json.dumps(m["case"])))


def main(argv):
    seeds, tier, both = [0, 1, 2, 3], "quick", True
    i = 0
    while i < len(argv):
        if argv[i] == "--seeds":
            seeds = [int(x) for x in argv[i + 1].split(",")]
            i += 2
        elif argv[i] == "--tier":
            tier = argv[i + 1]
            i += 2
        elif argv[i] == "--patched-only":
            both = False
            i += 1
        else:
            raise SystemExit(__doc__)
    if not os.path.exists(DRIVER):
        raise SystemExit("build the Lean driver first: cd lean && lake build")
    ok = True
    if both:
        meta, tally, bad = run_tree(False, seeds, tier)
        show("UNPATCHED clone of %s, model as the code is" % REPO, meta, tally, bad)
        ok = ok and not bad
    meta, tally, bad = run_tree(True, seeds, tier)
    show("PATCHED clone (proposed-fixes/C08-close-raise.diff), model with closeSwallows := true", meta, tally, bad)
    esc = sum(n for (g, c, s), n in tally.items() if s.startswith("fail:hook-error-escapes-scheduler") or s == "fail:nothing-else-escapes")
    other = sorted(set(s for (g, c, s) in tally if s not in ("ok", "fail:scheduler-retains-pending-batch")))
    ok = ok and not bad and esc == 0 and not other
    print("after the fix: %d cases, %d CORR=ok, %d let an exception out of the scheduler, %d SPEC=ok, %d only show the other open "
          "finding (scheduler-retains-pending-batch)%s" % (
              len(meta), sum(n for (g, c, s), n in tally.items() if c == "CORR=ok"), esc,
              sum(n for (g, c, s), n in tally.items() if s == "ok"),
              sum(n for (g, c, s), n in tally.items() if s == "fail:scheduler-retains-pending-batch"),
              "" if not other else "; UNEXPECTED: " + ", ".join(other)))
    print("EXPECTATION MET" if ok else "EXPECTATION NOT MET")
    return 0 if ok else 1


if __name__ == "__main__":
    if len(sys.argv) > 1 and sys.argv[1] == "--child":
        child(sys.argv[2], int(sys.argv[3]), [int(x) for x in sys.argv[4].split(",")], sys.argv[5])
        sys.exit(0)
    sys.exit(main(sys.argv[1:]))
