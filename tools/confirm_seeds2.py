#!/usr/bin/env python3
"""Round 2: confirm sub-agent mutations from /tmp/seed-out3/<pid>/ on a fresh clone of /repo, store as seeded/<pid>-3, -4 (-5 bonus)."""
import json, os, re, shutil, subprocess, sys, tempfile
PY = '/venv/bin/python'
def sh(cmd, cwd, timeout=900):
    try:
        p = subprocess.run(cmd, cwd=cwd, shell=True, capture_output=True, text=True, timeout=timeout)
    except subprocess.TimeoutExpired:
        return 124, 'TIMEOUT after %ds' % timeout
    return p.returncode, (p.stdout + p.stderr)
for pid in sys.argv[1:]:
    out = f'{os.environ.get("SEED_OUT", "/tmp/seed-out3")}/{pid}'
    cands = [(f'{out}/patch1.diff', f'{out}/demo1.py'), (f'{out}/patch2.diff', f'{out}/demo2.py')]
    for a, b in (('patch3_bonus.diff', 'demo3_bonus.py'), ('extra_patch3.diff', 'extra_demo3.py')):
        if os.path.exists(f'{out}/{a}'): cands.append((f'{out}/{a}', f'{out}/{b}'))
    n = int(os.environ.get('SEED_BASE', '5'))
    for patch, demo in cands:
        n += 1
        if not (os.path.exists(patch) and os.path.exists(demo)):
            print(pid, n, 'missing'); continue
        tmp = tempfile.mkdtemp(prefix='confirm-'); wt = f'/tmp/wt-{pid}'
        # demos assert the worktree path: run them in the agent's worktree, reset first
        sh('git checkout -- . && git clean -fdq', wt)
        rc0, o0 = sh(f'{PY} {demo}', wt, 400)
        rca, oa = sh(f'git apply {patch}', wt)
        rct, ot = sh(f'{PY} -m pytest asynq/tests -q -p no:cacheprovider --timeout=900 2>&1 | tail -5', wt)
        failed = [l for l in ot.splitlines() if l.startswith('FAILED')]
        m = re.search(r'(\d+) passed', ot); tests_ok = all('test_pyright' in l for l in failed) and bool(m) and int(m.group(1)) >= 104
        rc1, o1 = sh(f'{PY} {demo}', wt, 400)
        sh('git checkout -- . && git clean -fdq', wt)
        shutil.rmtree(tmp, ignore_errors=True)
        ok = rc0 == 0 and rca == 0 and tests_ok and rc1 != 0
        sid = f'{pid}-{n}'
        print(sid, 'CONFIRMED' if ok else 'REJECTED', dict(clean_demo_rc=rc0, apply_rc=rca, tests_ok=tests_ok, mutated_demo_rc=rc1, failed=failed), flush=True)
        if ok:
            d = f'/verif/seeded/{sid}'
            os.makedirs(d, exist_ok=True)
            shutil.copy(patch, f'{d}/patch.diff'); shutil.copy(demo, f'{d}/demo.py')
            notes = open(f'{out}/notes.md').read() if os.path.exists(f'{out}/notes.md') else ''
            json.dump({'property': pid, 'round': int(os.environ.get('SEED_ROUND', '3')), 'origin': 'independent sub-agent given only the property text and a scratch worktree of the (repaired) tree',
                       'notes_from_author': notes,
                       'confirmed_by': 'tools/confirm_seeds2.py: demo exits 0 on the clean tree, patch applies, the existing test suite passes with the patch (only the baseline-failing test_pyright fails), demo exits non-zero with the patch',
                       'demo_output_with_patch': o1[-800:], 'tests_tail': ot[-300:]}, open(f'{d}/meta.json', 'w'), indent=1)
