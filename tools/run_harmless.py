#!/usr/bin/env python3
"""false-alarm test: every check against behaviour-preserving refactorings (harmless/refactorN.diff), on scratch clones"""
import json, os, shutil, subprocess, sys, tempfile, time
from concurrent.futures import ThreadPoolExecutor
man = json.load(open('/verif/MANIFEST.json'))
pids = [c['property_id'] for c in man['checks']] + [p for p in sys.argv[1:] if p.startswith('C')]
diffs = sorted(f for f in os.listdir('/verif/harmless') if f.endswith('.diff') and not f.endswith('.orig.diff'))
def run(d):
    tmp = tempfile.mkdtemp(prefix='harmless-')
    out = []
    try:
        repo = os.path.join(tmp, 'repo')
        subprocess.run(['git', 'clone', '-q', '/repo', repo], check=True)
        p = subprocess.run(['git', '-C', repo, 'apply', '/verif/harmless/' + d], capture_output=True, text=True)
        if p.returncode != 0:
            p = subprocess.run(['git', '-C', repo, 'apply', '-C1', '/verif/harmless/' + d], capture_output=True, text=True)
        if p.returncode != 0:
            return [(d, '-', 'PATCH-FAILED ' + p.stderr.strip()[:150])]
        env = dict(os.environ, ASYNQ_REPO=repo)
        for q in pids:
            r = subprocess.run(['bin/check', q], cwd='/verif', capture_output=True, text=True, timeout=1800, env=env)
            if r.returncode != 0:
                out.append((d, q, 'rc=%d %s' % (r.returncode, ' | '.join(l for l in r.stdout.splitlines() if l.startswith(('VIOLATION', 'BROKEN')))[:300])))
        out.append((d, '*', 'done: %d checks, %d alarms' % (len(pids), len(out))))
    finally:
        shutil.rmtree(tmp, ignore_errors=True)
    return out
with ThreadPoolExecutor(2) as ex:
    for rs in ex.map(run, diffs):
        for r in rs:
            print(*r, flush=True)
