#!/usr/bin/env python3
"""regenerate the machine-written status tables in DESIGN.md (between <!-- STATUS:BEGIN --> and <!-- STATUS:END -->)"""
import importlib, json, os, re, subprocess, sys
sys.path.insert(0, '/verif/harness')
man = json.load(open('/verif/MANIFEST.json'))
claimed = {c['property_id'] for c in man['checks']}
props = [json.loads(l) for l in open('/verif/properties.jsonl')]
kf = json.load(open('/verif/known_findings.json'))['findings']
seedres = {}
p = '/verif/seeded/RESULTS.json'
if os.path.exists(p):
    seedres = json.load(open(p))
rows = ["| id | claimed | Lean model | property theorems (audited) | seeded mutations caught | findings |", "|---|---|---|---|---|---|"]
for pr in props:
    pid = pr['id']
    try:
        m = importlib.import_module('checks.' + pid.lower())
        thms = [t.split('.')[-1] for t in m.THEOREMS]
        mods = ', '.join(x.split('.')[-1] for x in m.LEAN_MODULES)
    except Exception:
        thms, mods = [], '-'
    model = 'Core/Machine' if pid in ('C01','C02','C03','C04','C05','C06','C07','C08','C20') else {
        'C09':'Lib/Decorators','C10':'Lib/Futures','C11':'Lib/Batching','C12':'Lib/Dedup','C13':'Lib/Cache','C14':'Lib/Tools',
        'C15':'Lib/Asyncio','C16':'Lib/Threads','C17':'Lib/Generator','C18':'Lib/Debug','C19':'Lib/Mock'}[pid]
    sr = [f"{k}: {v}" for k, v in sorted(seedres.items()) if k.startswith(pid + '-')]
    fnd = [f"{e['status']}: {e['signature']}" for e in kf if e['property'] == pid]
    try:
        byc = getattr(m, 'BY_CONSTRUCTION', None) or getattr(m, 'BY_CONSTRUCTION_THEOREMS', None) or []
    except Exception:
        byc = []
    byc = [t.split('.')[-1] for t in byc]
    head = [t for t in thms if t not in byc]
    cell = f"{len(head)}: {', '.join(head) if head else '-'}"
    if byc:
        cell += f" (+{len(byc)} that hold by construction of the model, audited but not part of the claim: {', '.join(byc)})"
    rows.append(f"| {pid} | {'yes' if pid in claimed else 'no'} | {model} | {cell} | {'; '.join(sr) or '-'} | {'; '.join(fnd) or '-'} |")
txt = open('/verif/DESIGN.md').read()
new = "<!-- STATUS:BEGIN -->\n" + "\n".join(rows) + "\n<!-- STATUS:END -->"
if '<!-- STATUS:BEGIN -->' in txt:
    txt = re.sub(r'<!-- STATUS:BEGIN -->.*?<!-- STATUS:END -->', lambda m: new, txt, flags=re.S)
    open('/verif/DESIGN.md', 'w').write(txt)
    print('DESIGN.md status table updated')
else:
    print(new)
