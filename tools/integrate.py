#!/usr/bin/env python3
"""integrate a builder agent's deliverables: integrate.py PID MODE DrvModuleName  (e.g. C14 tools Tools)"""
import json, os, re, shutil, subprocess, sys
pid, mode, drv = sys.argv[1:4]
src = f'/tmp/build-{pid}'
new = []
for sub in ('lean/AsynqModel', 'harness/checks', f'corpus/{pid}', 'harness'):
    d = os.path.join(src, sub)
    if not os.path.isdir(d): continue
    for root, dirs, files in os.walk(d):
        if '.lake' in root or '__pycache__' in root: continue
        if sub == 'harness' and root != d: continue
        for f in files:
            p = os.path.join(root, f); rel = os.path.relpath(p, src); dst = os.path.join('/verif', rel)
            if f.endswith(('.pyc',)): continue
            if not os.path.exists(dst):
                os.makedirs(os.path.dirname(dst), exist_ok=True); shutil.copy2(p, dst); new.append(rel)
            elif sub != 'harness' and open(p,'rb').read() != open(dst,'rb').read() and (f'/{pid.lower()}' in rel.lower() or drv in rel):
                shutil.copy2(p, dst); new.append(rel + ' (updated)')
print('copied:', new)
# imports
am = open('/verif/lean/AsynqModel.lean').read()
for l in open(os.path.join(src, 'lean/AsynqModel.lean')).read().splitlines():
    if l.startswith('import') and l not in am:
        am += l + '\n'
open('/verif/lean/AsynqModel.lean', 'w').write(am)
dr = open('/verif/lean/Driver.lean').read()
imp = f'import AsynqModel.Drv.{drv}\n'
if imp not in dr:
    dr = dr.replace('import AsynqModel.Drv.Core\n', 'import AsynqModel.Drv.Core\n' + imp)
disp = f'  | "{mode}" => Drv.{drv}.handle id hdr body\n'
if disp not in dr:
    dr = dr.replace('  | "core" => Drv.Core.handle id hdr body\n', '  | "core" => Drv.Core.handle id hdr body\n' + disp)
open('/verif/lean/Driver.lean', 'w').write(dr)
# manifest entry
txt = open(os.path.join(src, 'INTEGRATION.md')).read()
m = re.search(r'```json\s*(\{.*?\})\s*```', txt, re.S)
entry = json.loads(m.group(1))
man = json.load(open('/verif/MANIFEST.json'))
man['checks'] = [c for c in man['checks'] if c['property_id'] != pid] + [entry]
man['checks'].sort(key=lambda c: c['property_id'])
man['not_applicable'] = [n for n in man.get('not_applicable', []) if n['property_id'] != pid]
sp = man['engines'][0]['serves_properties']
if pid not in sp: sp.append(pid); sp.sort()
json.dump(man, open('/verif/MANIFEST.json', 'w'), indent=1)
print('manifest updated for', pid)
