#!/usr/bin/env python3
"""Print the prompt given to a mutation sub-agent for one property (only the property text, nothing from /verif)."""
import json, sys
pid = sys.argv[1]
for l in open('/verif/properties.jsonl'):
    p = json.loads(l)
    if p['id'] == pid:
        break
else:
    raise SystemExit('no such property')
wt = f'/tmp/wt-{pid}'
out = f'/tmp/seed-out/{pid}'
print(f"""You are helping to evaluate a verification tool by mutation testing of the Python library quora/asynq (a generator-based cooperative task scheduler with batching). You have your own scratch git worktree of the library at {wt} (pure-Python sources under {wt}/asynq, no compiled extensions). Work ONLY inside {wt} and write your deliverables to {out}/ (create it). Do NOT read or touch /repo or /verif at all.

PROPERTY that the unmodified library is expected to satisfy:
  Title: {p['title']}
  Statement: {p['statement']}
  Quantified over: {p['quantifier']['text']}
  Code anchors: {', '.join(p['anchors']['files'])}

YOUR TASK: produce TWO different, independent, realistic changes ("mutations", like a plausible bug a maintainer could introduce by a refactoring or 'optimisation') to the library source under {wt}/asynq (not the tests) such that each one:
  1. BREAKS the property above (makes the statement false for some program / input / schedule / history),
  2. still imports fine and the EXISTING test suite still passes with it. Run it with:
        cd {wt} && /venv/bin/python -m pytest asynq/tests -q -p no:cacheprovider --timeout=900 -q
     (asynq/tests/test_pyright.py::test_return_type fails on the unmodified tree too - ignore that one; everything else must pass. Check `python -c "import asynq; print(asynq.__file__)"` run from {wt} prints a path inside {wt}.)
  3. needs something SPECIFIC to manifest - a particular interleaving/flush order, a failure at a particular point, a multi-step sequence of operations, an unusual input/shape, a particular nesting depth, or two cooperating sites that each look fine alone. NOT a change that ordinary use would expose at once (if most simple programs break, the existing tests would catch it and it is useless).
  4. is small (a few lines) and touches only library code.

For each of the two mutations deliver, in {out}/ :
  - patch1.diff / patch2.diff : output of `git -C {wt} diff` for that mutation alone (each against the unmodified tree; reset with `git -C {wt} checkout -- .` between them),
  - demo1.py / demo2.py : a small standalone program, run as `cd {wt} && /venv/bin/python {out}/demoN.py`, that exits 0 (prints OK) on the UNMODIFIED tree and exits non-zero (prints what went wrong) with the mutation applied. It must demonstrate a violation of the property as stated (not of some internal detail).
  - notes.md : for each mutation 3-6 lines: what was changed, why it breaks the property, what it needs in order to manifest, and confirmation of the commands you ran (tests pass with the mutation; demo passes without, fails with).
Verify everything yourself by actually running it. Leave the worktree clean (`git -C {wt} checkout -- .`) when you finish. Keep your final answer to a few lines: the two one-line descriptions and whether all verifications succeeded.""")
