#!/usr/bin/env python3
"""debug_case.py replay.json : implementation trace and model trace side by side (core machine cases)"""
import json, os, subprocess, sys, tempfile, shutil
sys.path.insert(0, '/verif/harness')
r = json.load(open(sys.argv[1])); case = r.get('case', r); case['id'] = 0
tmp = tempfile.mkdtemp(prefix='dbg-')
os.makedirs(tmp + '/asynq')
for f in os.listdir('/repo/asynq'):
    if f.endswith(('.py', '.pxd')): shutil.copy('/repo/asynq/' + f, tmp + '/asynq/' + f)
code = '''
import sys, json, io
sys.path.insert(0, %r); sys.path.insert(1, '/verif/harness')
import asynq; assert asynq.__file__.startswith(%r)
from checks import corecommon as cc
case = json.loads(%r)
so = sys.stdout; sys.stdout = io.StringIO()
res = cc.run_case_for('C06', case)
sys.stdout = so
print(json.dumps(res['lines']))
''' % (tmp, tmp, json.dumps(case))
p = subprocess.run(['/venv/bin/python', '-c', code], capture_output=True, text=True)
shutil.rmtree(tmp)
lines = json.loads(p.stdout.strip().splitlines()[-1])
lines[0] = lines[0].replace('(case core ', '(case coredump ')
q = subprocess.run(['/verif/lean/.lake/build/bin/driver'], input='\n'.join(lines) + '\n', capture_output=True, text=True)
model = q.stdout.strip().splitlines()
impl = lines[1:-1]
for i in range(max(len(impl), len(model))):
    a = impl[i] if i < len(impl) else ''; b = model[i] if i < len(model) else ''
    print(('  ' if a == b else '!!'), a[:70].ljust(70), '|', b[:70])
