import sys, random, subprocess, json
import os
HERE = os.path.dirname(os.path.dirname(os.path.abspath(__file__)))
sys.path.insert(0, os.path.join(HERE, "harness"))
sys.path.insert(0, os.environ.get("ASYNQ_SRC", "/repo"))   # a directory with the .py sources of asynq (beware of stale .so files in /repo: use a copy of the .py/.pxd files)
from checks import ctxhist
FEATS={}
def drive(cases):
    lines=[]
    for i,c in enumerate(cases):
        c=dict(c); c["id"]=i
        r=ctxhist.run(c)
        lines+=r["lines"]
        for f in r["features"]:
            FEATS[f]=FEATS.get(f,0)+1
    out=subprocess.run([os.path.join(HERE, "lean/.lake/build/bin/driver")],input="\n".join(lines)+"\n",capture_output=True,text=True)
    return out.stdout.splitlines(), lines
def wild(seed, n):
    rng=random.Random(seed)
    cases=[]
    leavers=[c for c in ctxhist.HOOK_CONFIGS if any(a[0]=="exit" for h in ctxhist.HOOK_CONFIGS[c][1] for a in h[0])]
    for _ in range(n):
        if rng.random()<0.35:
            ctxs,hooks=ctxhist.HOOK_CONFIGS[rng.choice(leavers)]
            cases.append(ctxhist.mk_hooks(ctxs,hooks,ctxhist.random_hook_history(rng,ctxs,hooks,rng.randint(3,14),rng.choice([1.0,0.9,0.75]),members_too=True,prefix=ctxhist.leave_prefix(rng,hooks)),"wild-aimed"))
            continue
        ctxs=ctxhist.random_ctxs(rng)
        hooks=ctxhist.random_hooks(rng, ctxs)
        tg=set(a[1] for h in hooks for a in h[0]+h[1])
        leaves=[i for i in range(len(ctxs)) if hooks[i]==ctxhist.NOH]
        for h in hooks:
            if h!=ctxhist.NOH and leaves and rng.random()<0.7:
                h[0]=list(h[0])+[["exit", rng.choice(leaves)]]
                rng.shuffle(h[0])
        cases.append(ctxhist.mk_hooks(ctxs,hooks,ctxhist.random_hook_history(rng,ctxs,hooks,rng.randint(3,18),rng.choice([1.0,0.9,0.7]),members_too=True,prefix=ctxhist.leave_prefix(rng,hooks) if rng.random()<0.7 else ()),"wild"))
    res,lines=drive(cases)
    bad=[r for r in res if "CORR=ok" not in r or r.split("SPEC=")[1].split()[0]!=r.split("SPECM=")[1].split()[0]]
    crash=[r for r in res if "SPEC=fail" in r or "SPECM=fail" in r]
    hits=0; inside=False; hit=False
    for ln in lines:
        if ln.startswith("(case"): hit=False
        elif ln.startswith("(obs (continue)") or ln.startswith("(obs (revisit)"):
            calls=ln.split("(calls")[1].split("(exc")[0]
            if "(P " in calls and "(R " in calls and calls.index("(R ")<calls.index("(P ") and ln.startswith("(obs (continue)"): hit=True
            if ln.startswith("(obs (revisit)") and "(R " in calls and "(P " in calls: pass
        elif ln.startswith("(end)"): hits+=hit
    print(n,"wild cases",len(bad),"CORR differences or SPEC/SPECM disagreements",len(crash),"SPEC or SPECM failures",hits,"cases with a context left INSIDE the resume loop of a continuation")
    for c in crash[:5]:
        print(c); print(json.dumps(cases[int(c.split()[1])]))
    print({k:v for k,v in FEATS.items() if "resume" in k or "revisit" in k or "hook-actions" in k})
    for b in bad[:5]:
        print(b); print(json.dumps(cases[int(b.split()[1])]))

if __name__=="__main__" and sys.argv[1]=="wild":
    wild(int(sys.argv[2]), int(sys.argv[3])); sys.exit(0)
if __name__=="__main__":
    mode=sys.argv[1]
    rng=random.Random(int(sys.argv[2]) if len(sys.argv)>2 else 0)
    if mode=="crash":
        cases=[ctxhist.mk_hooks(c,h,o,"crash") for c,h,o in ctxhist.CRASH_DEMOS]
    elif mode=="hooks":
        cases=ctxhist.hook_cases(sys.argv[3] if len(sys.argv)>3 else "quick", rng)
    elif mode=="all":
        cases=ctxhist.cases("quick", rng)
    res,lines=drive(cases)
    bad=[r for r in res if "CORR=ok SPEC=ok SPECM=ok" not in r]
    print(len(cases),"cases",len(res),"results",len(bad),"bad")
    print({k:v for k,v in FEATS.items() if "resume" in k or "revisit" in k or "hook-actions" in k})
    for b in bad[:8]:
        print(b)
        i=int(b.split()[1]); print(json.dumps(cases[i]))
    if mode=="crash":
        print("\n".join(lines))
