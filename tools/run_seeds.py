#!/usr/bin/env python3
"""Apply each seeded mutation to /repo, run the check of its property (and optionally others), undo it.
usage: run_seeds.py [--also C01,C03] C01-1 C02-2 ...   (no args: all seeds)"""
import json, os, subprocess, sys, time
args = sys.argv[1:]
also = []
if args and args[0] == '--also':
    also = args[1].split(','); args = args[2:]
seeds = args or sorted(os.listdir('/verif/seeded'))
res = {}
for sid in seeds:
    pid = sid.split('-')[0]
    patch = f'/verif/seeded/{sid}/patch.diff'
    subprocess.run(['git', '-C', '/repo', 'checkout', '--', '.'], check=True)
    p = subprocess.run(['git', '-C', '/repo', 'apply', patch], capture_output=True, text=True)
    if p.returncode != 0:
        print(sid, 'PATCH-FAILED', p.stderr.strip()[:200]); continue
    try:
        for q in [pid] + also:
            t = time.time()
            r = subprocess.run(['bin/check', q], cwd='/verif', capture_output=True, text=True, timeout=1200)
            viol = [l for l in r.stdout.splitlines() if l.startswith('VIOLATION')]
            tail = r.stdout.strip().splitlines()[-1] if r.stdout.strip() else r.stderr[-200:]
            print(sid, q, 'rc=%d' % r.returncode, 'DETECTED' if r.returncode == 1 else 'MISSED' if r.returncode == 0 else 'BROKEN', '%.0fs' % (time.time() - t),
                  ('nofail' if viol and all('no-failing-input-found' in v for v in viol) else ''), '|', tail[:160], flush=True)
            res.setdefault(sid, {})[q] = r.returncode
    finally:
        subprocess.run(['git', '-C', '/repo', 'checkout', '--', '.'], check=True)
