#!/usr/bin/env python3
"""Run the check of a property against its seeded mutations, on a scratch copy of /repo (ASYNQ_REPO), several in parallel.
usage: run_seeds.py [--also C01,C03] [C01-1 C02-2 ...]   (no ids: every seed whose property has a check module)
Results are merged into seeded/RESULTS.json."""
import json, os, shutil, subprocess, sys, tempfile, time
from concurrent.futures import ThreadPoolExecutor
args = sys.argv[1:]
also = []
if args and args[0] == '--also':
    also = args[1].split(','); args = args[2:]
seeds = args or sorted(d for d in os.listdir('/verif/seeded') if os.path.isdir('/verif/seeded/' + d))
seeds = [s for s in seeds if os.path.exists('/verif/harness/checks/%s.py' % s.split('-')[0].lower())]

def run(sid):
    pid = sid.split('-')[0]
    try:
        if json.load(open(f'/verif/seeded/{sid}/meta.json')).get('neutralised_by_fix'):
            return [(sid, pid, 'NEUTRALISED', 'no longer a breaking change on the repaired tree (see meta.json)')]
    except Exception:
        pass
    tmp = tempfile.mkdtemp(prefix='seedrepo-')
    out = []
    try:
        repo = os.path.join(tmp, 'repo')
        subprocess.run(['git', 'clone', '-q', '/repo', repo], check=True)
        p = subprocess.run(['git', '-C', repo, 'apply', f'/verif/seeded/{sid}/patch.diff'], capture_output=True, text=True)
        if p.returncode != 0:
            return [(sid, pid, 'PATCH-FAILED', p.stderr.strip()[:200])]
        env = dict(os.environ, ASYNQ_REPO=repo)
        for q in [pid] + also:
            t = time.time()
            r = subprocess.run(['bin/check', q], cwd='/verif', capture_output=True, text=True, timeout=1800, env=env)
            viol = [l for l in r.stdout.splitlines() if l.startswith('VIOLATION')]
            tail = r.stdout.strip().splitlines()[-1] if r.stdout.strip() else r.stderr[-200:]
            verdict = 'DETECTED' if r.returncode == 1 else 'MISSED' if r.returncode == 0 else 'BROKEN'
            if verdict == 'DETECTED' and viol and all('no-failing-input-found' in v for v in viol):
                verdict = 'DETECTED(nofail)'
            out.append((sid, q, verdict, '%.0fs | %s' % (time.time() - t, tail[:150])))
    finally:
        shutil.rmtree(tmp, ignore_errors=True)
    return out

with ThreadPoolExecutor(3) as ex:
    results = [r for rs in ex.map(run, seeds) for r in rs]
resf = '/verif/seeded/RESULTS.json'
res = json.load(open(resf)) if os.path.exists(resf) else {}
for sid, q, verdict, info in results:
    print(sid, q, verdict, info, flush=True)
    if q == sid.split('-')[0]:
        res[sid] = verdict.lower()
    else:
        res[sid + '@' + q] = verdict.lower()
json.dump(res, open(resf, 'w'), indent=1, sort_keys=True)
